import Model.Pool
import Model.Pipe
import Model.PoolCtl
import Driver.Util
namespace Driver.C17
open Util Pool

def init : Unit := ()

def parseAct : String → Option Act
  | "fillStart" => some .fillStart | "dialOk" => some .dialOk | "dialFail" => some .dialFail
  | "fillStop" => some .fillStop | "connError" => some .connError | "close" => some .close
  | _ => none

def kv (ws : List String) (k : String) : Option Nat :=
  (ws.findSome? fun w => match w.splitOn "=" with
    | [a, b] => if a == k then b.toNat? else none
    | _ => none)

/-! ### conducted schedules of the connect pipeline (Model/Pipe.lean) -/

def b01 (b : Bool) : String := if b then "1" else "0"

/-- what the harness records after every action: the registered pool, open sockets, connections in closed pools,
    helper goroutines of setupConn (two per connect inside its handshake: `Hs` reporters R and W) -/
def showHost (h : Pipe.Host) : String :=
  let cur := match h.cur with
    | none => "-"
    | some p => s!"c{p.conns.length}x{b01 p.closed}f{b01 p.filling}"
  let inHs := (h.pools.flatMap (·.att)).filter fun a => match a.stage with
    | .opt => true | .st => true | .au _ => true | _ => false
  s!"{cur}:{h.opened}:{h.closedConns}:{2 * inHs.length}"

/-- fillers whose connects have all returned stop (the harness waits for `filling` to drop before it goes on) -/
def autoStop (h : Pipe.Host) : Nat → Pipe.Host
  | 0 => h
  | n + 1 => match h.step .stop with
    | some h' => autoStop h' n
    | none => h

def failAll (h : Pipe.Host) : List Nat → Pipe.Host
  | [] => h
  | k :: ks => match h.step (.fail k) with
    | some h' => failAll h' ks
    | none => failAll h ks

def repeatStep (h : Pipe.Host) (a : Pipe.Act) : Nat → Pipe.Host
  | 0 => h
  | n + 1 => match h.step a with
    | some h' => repeatStep h' a n
    | none => h

def splitTok (t : String) : String × Option Nat :=
  let cs := t.toList
  let name := cs.takeWhile Char.isAlpha
  let num := cs.dropWhile Char.isAlpha
  (String.ofList name, if num.isEmpty then none else (String.ofList num).toNat?)

/-- one harness action = one model action plus the steps the harness waits for -/
def macroStep (h : Pipe.Host) (tok : String) : Option Pipe.Host :=
  let fuel := h.old.length + 2
  match splitTok tok with
  | ("ok", some k) => (h.step (.ok k)).map (autoStop · fuel)
  | ("failE", some k) => (h.step (.fail k)).map (autoStop · fuel)
  | ("failR", some k) => (h.step (.fail k)).map (autoStop · fuel)
  -- a failure BEFORE the first round trip (the per-host AuthProvider returns an error in Conn.init): the dial of
  -- attempt k has returned a socket (`ok` at stage dial), the attempt then fails with that socket and no round trip
  | ("failA", some k) =>
      if ((h.pools.flatMap (·.att)).any fun a => a.id = k && a.stage = .dial) then
        ((h.step (.ok k)).bind (·.step (.fail k))).map (autoStop · fuel)
      else none
  | ("err", some k) => h.step (.err k)
  | ("pick", none) => if h.cur.isNone then none else h.step .pick
  | ("burst", none) =>   -- several fill() calls at once (32 in the model): all pass the first check, then take the write lock one by one
      if h.cur.isNone then none else some (repeatStep (repeatStep h .fillCheck 32) .fillGo 32)
  -- addHost (the harness does not call it once Session.Close has returned); between policyConnPool.Close() and
  -- s.cancel() it finds the pool map closed and does nothing
  | ("up", none) => if h.cancelled then none else h.step .up
  -- N concurrent addHost callers (spin barrier / parked on the locks addHost takes): whatever the order in which they
  -- get the mutex, the first registers (or finds) the pool and fills it, the others find it (Reg: C17_one_pool_per_host)
  | ("ups", some n) => if n = 0 || h.cancelled then none else (h.step .up).map fun h' => repeatStep h' .up (n - 1)
  | ("upp", some n) => if n = 0 || h.cancelled then none else (h.step .up).map fun h' => repeatStep h' .up (n - 1)
  | ("down", none) => if h.cur.isNone then none else h.step .down
  | ("pclose", none) => if h.cur.isNone then none else h.step .pclose
  | ("sclose", none) =>
      if h.sessClosed then none else
      ((h.step .sclose).bind (·.step .scancel)).map fun h' =>
        autoStop (failAll h' ((h'.pools.flatMap (·.att)).map (·.id))) (fuel + 1)
  -- Session.Close held between policyConnPool.Close() and s.cancel() …
  | ("shold", none) => if h.sessClosed then none else h.step .sclose
  -- … and let go: the session context is cancelled, every connect in flight fails
  | ("sfin", none) =>
      if !h.sessClosed || h.cancelled then none else
      (h.step .scancel).map fun h' =>
        autoStop (failAll h' ((h'.pools.flatMap (·.att)).map (·.id))) (fuel + 1)
  | _ => none

def runMacro (h : Pipe.Host) : List String → List String
  | [] => []
  | t :: ts => match macroStep h t with
    | some h' => showHost h' :: runMacro h' ts
    | none => "skip" :: runMacro h ts

def kvs (ws : List String) (k : String) : Option String :=
  (ws.findSome? fun w => match w.splitOn "=" with
    | [a, b] => if a == k then some b else none
    | _ => none)

def pipeCfg (ws : List String) : Option Pipe.Cfg :=
  match kv ws "size", kv ws "ks", kv ws "auth" with
  | some n, some k, some a => some { size := n, ks := k == 1, auth := a }
  | _, _, _ => none

def parseHsAct : String → Option Hs.Act
  | "rErr" => some .rErr | "rEnd" => some .rEnd | "wRet" => some .wRet | "rSend" => some .rSend
  | "wSend" => some .wSend | "rEsc" => some .rEsc | "wEsc" => some .wEsc | "ctxFire" => some .ctxFire
  | "cRecv" => some .cRecv | "cLeave" => some .cLeave | "cRet" => some .cRet
  | _ => none

def showHs (s : Hs.St) : String :=
  let r (x : Hs.RPc) := match x with | .run => "run" | .send => "send" | .done => "done"
  let c := match s.c with | .wait => "wait" | .got => "got" | .left => "left" | .ret => "ret"
  s!"r={r s.r} w={r s.w} c={c} cancelled={b01 s.cancelled} buf={s.buf}"

/-! ### conducted schedules of the refreshDebouncer with waiters (Model/Pool.lean, `WDeb`) -/

/-- the flusher runs until it is inside refreshFn (held by the harness) or has returned: whichever ready case the
    select takes, the critical section that follows clears both request channels -/
def debSettle (d : WDeb) : WDeb :=
  if d.f = .select then
    let wb : Option WakeBy :=
      if d.token then some .now else if d.timerArmed then some .timer else if d.quitClosed then some .quit else none
    match wb with
    | some b => match wstep d (.wake b) with
      | some d1 => (wstep d1 .lock).getD d1
      | none => d
    | none => d
  else d

/-- (state, waiters whose refresh returned an error) after one harness action; none = does not apply -/
def debMacro (st : WDeb × List Nat) (tok : String) : Option (WDeb × List Nat) :=
  let (d, errs) := st
  match tok with
  | "now" => (wstep d .refreshNow).map fun d' => (debSettle d', errs)
  | "deb" => (wstep d .debounce).map fun d' => (debSettle d', errs)
  | "stop" => (wstep d .stop).map fun d' => (debSettle d', errs)
  | "fin" => (wstep d .refreshDone).map fun d' => (debSettle d', errs)
  | "finE" => (wstep d .refreshDone).map fun d' => (debSettle d', errs ++ ls d.cur)
  | _ => none

def showDeb (st : WDeb × List Nat) : String :=
  let (d, errs) := st
  let f := match d.f with | .select => "sel" | .woken => "wok" | .refreshing => "ref" | .exited => "exit"
  let ws := (List.range d.nextW).map fun w =>
    if d.served.contains w then (if errs.contains w then "e" else "r") else if d.shut.contains w then "c" else "p"
  s!"{f}:{String.join ws}"

def runDebMacro (st : WDeb × List Nat) : List String → List String
  | [] => []
  | t :: ts => match debMacro st t with
    | some st' => showDeb st' :: runDebMacro st' ts
    | none => "skip" :: runDebMacro st ts

/-! ### conducted schedules of Session.Close against the control connection (Model/PoolCtl.lean) -/

/-- what happens by itself once it can: a reconnect attempt whose last round trip is over returns, the heartbeat
    goroutine back in its select takes the closer's quit, the closer closes the control connection and goes on -/
def ctlSettle (s : Ctl.St) : Nat → Ctl.St
  | 0 => s
  | n + 1 =>
    match s.rc with
    | .hb 0 => match Ctl.step s .rcDone with | some s' => ctlSettle s' n | none => s
    | .other 0 => match Ctl.step s .rcDone with | some s' => ctlSettle s' n | none => s
    | _ =>
      if s.hb = .select ∧ s.cl = .sending then (match Ctl.step s .hbQuit with | some s' => ctlSettle s' n | none => s)
      else if s.cl = .closeConn then (match Ctl.step s .closeConn with | some s' => ctlSettle s' n | none => s)
      else s

/-- the session context is cancelled (Session.Close went through): the round trips an attempt still had fail at once -/
def ctlDrain (s : Ctl.St) : Nat → Ctl.St
  | 0 => s
  | n + 1 => match Ctl.step s .rcStep with
    | some s' => ctlDrain s' n
    | none => s

def ctlMacro (s : Ctl.St) (tok : String) : Option Ctl.St :=
  match splitTok tok with
  -- the server resets the control connection while every dial is refused: the reader's reconnect() fails at once
  | ("drop", none) =>
      if s.state = .closing ∨ s.rc ≠ .free ∨ s.cl ≠ .idle then none else (Ctl.step s (.otherEnter 0)).map (ctlSettle · 4)
  -- the heartbeat finds the connection broken: reconnect() with k round trips, the first one held
  | ("hbfail", some k) =>
      if s.cl ≠ .idle ∨ s.rc ≠ .free then none else
      ((Ctl.step s .hbTimer).bind (Ctl.step · (.hbBeatFail k))).map (ctlSettle · 4)
  | ("rel", none) => (match s.rc with | .hb _ => (Ctl.step s .rcStep).map (ctlSettle · 4) | _ => none)
  -- the server resets the control connection while dials are held: the reader's reconnect(), k round trips, the first held
  | ("dropo", some k) =>
      if s.state = .closing ∨ s.rc ≠ .free ∨ s.cl ≠ .idle then none else (Ctl.step s (.otherEnter k)).map (ctlSettle · 4)
  | ("relo", none) => (match s.rc with | .other _ => (Ctl.step s .rcStep).map (ctlSettle · 4) | _ => none)
  -- Session.Close: blocked behind a reconnect of the heartbeat goroutine; otherwise it goes through, and its cancel()
  -- ends a reconnect attempt of another goroutine (the connection it is setting up lives on the session context)
  | ("close", none) => (Ctl.step s .close).map fun s1 =>
      let s2 := ctlSettle s1 4
      match s2.cl, s2.rc with
      | .done, .other k => ctlSettle (ctlDrain s2 (k + 1)) 4
      | _, _ => s2
  | _ => none

def showCtl (s : Ctl.St) : String :=
  let h := match s.hb with | .notStarted => "N" | .select => "S" | .beat => "B" | .inReconn => "R" | .exited => "X"
  let c := match s.cl with | .idle => "I" | .sending => "S" | .closeConn => "C" | .done => "D"
  let r := match s.rc with | .free => "0" | _ => "1"
  let st := match s.state with | .starting => "0" | .started => "1" | .closing => "-1"
  s!"h{h}c{c}r{r}s{st}"

def runCtlMacro (s : Ctl.St) : List String → List String
  | [] => []
  | t :: ts => match ctlMacro s t with
    | some s' => showCtl s' :: runCtlMacro s' ts
    | none => "skip" :: runCtlMacro s ts

/-! ### conducted schedules of one eventDebouncer (Model/PoolCtl.lean, `EvStop`) -/

/-- what the flusher and stop() do by themselves once they can -/
def evdSettle (x : EvStop.St) : Nat → EvStop.St
  | 0 => x
  | n + 1 =>
    let next : Option EvStop.Act :=
      if x.f = .select ∧ x.fired then some .fTimer
      else if x.f = .wantLock ∧ x.mu = .none then some .fLock
      else if x.f = .flushing then some .fFlush
      else if x.f = .select ∧ x.s = .sending then some .fQuit
      else if x.s = .closing then some .stopDone
      else none
    match next.bind (EvStop.step x) with
    | some x' => evdSettle x' n
    | none => x

def evdMacro (x : EvStop.St) (tok : String) : Option EvStop.St :=
  let a : Option EvStop.Act := match tok with
    | "deb" => some .deb | "fire" => some .fire | "hlock" => some .hlock | "hunlock" => some .hunlock
    | "stop" => some .stop | _ => none
  (a.bind (EvStop.step x)).map (evdSettle · 8)

def showEvd (x : EvStop.St) : String :=
  let f := match x.f with | .select => "S" | .wantLock => "L" | .flushing => "F" | .exited => "X"
  let s := match x.s with | .idle => "I" | .wantLock => "M" | .sending => "S" | .closing => "C" | .done => "D"
  s!"f{f}s{s}c{x.callbacks}"

def runEvdMacro (x : EvStop.St) : List String → List String
  | [] => []
  | t :: ts => match evdMacro x t with
    | some x' => showEvd x' :: runEvdMacro x' ts
    | none => "skip" :: runEvdMacro x ts

/-- ops:
  evd : act act …      a conducted schedule of one eventDebouncer (acts: deb fire hlock hunlock stop) →
      `f<flusher: S select, L waiting for e.mu, X gone>s<stop(): I not called, S in its send, D returned>c<callbacks>` after
      every action, initial state first
  evdobs stopret=B flusherleft=N leaked=L sched=…      monitors of one such schedule (C17_evdeb_stop_never_blocked_for_good,
      C17_evdeb_flusher_exits)
  evdsess which=node|schema closeret=B leaked=L stack=… queryerr=… sched=…   the same schedule on a Session's own node /
      schema event debouncer with Session.Close in the place of stop()
  evdrace rounds=R hung=H flusherleft=F      stop() racing the timer, debounce() calls and the release of e.mu
  ctl : act act …      a conducted schedule of one Session with a control connection (acts: drop hbfailK rel dropoK relo close) →
      `h<heartbeat goroutine>c<closer>r<reconnecting>s<state>` after every action, initial state (heartbeat started) first
  ctlunit hb close | ctlunit close hb    the same letters for a fresh controlConn on which the heartbeat goroutine's
      first instruction resp. close() runs first (close first: the heartbeat goroutine then runs for good, KF-C17-4)
  retry n=N fates=<o|t|p…>   one refill of an emptied size-1 pool under a reconnection policy with GetMaxRetries() = N, the
      attempts' fates scripted (o connects, t fails retryably, p fails with a non-temporary *net.OpError; beyond the list: o)
      → `res=… dials=… conns=… nil=… pick=…` (Retry.connect; N = 0 is predicted as the code behaves: a nil connection, KF-C17-5)
  retryobs n=N dials=D nil=Z pick=P    its monitors for N ≥ 1: D ≤ N, no nil entry in pool.conns, Pick does not fault
      (C17_connect_conn_or_error_partial, C17_connect_attempts_bounded)
  ctlobs closeret=B hbleft=N leaked=L stack=… open=O queryerr=… sched=…   monitors of one such scenario: Session.Close
      returns (C17_ctl_closer_never_stranded / C17_ctl_close_wait_bounded), the heartbeat goroutine is gone
      (C17_ctl_heartbeat_exits_partial: the closer's CAS found it started), nothing left, queries refused
  pipe size=N ks=K auth=A rm=… : act act …
      a conducted schedule of the connect pipeline → the line of states `cur:open:closedconns;…` the model
      predicts (initial state first); acts: okK failEK failRK failAK errK pick burst up upsN uppN down pclose sclose shold sfin
  pipeobs kind=… size=N maxconns=M orphans=O closedconns=C [hostconns=H] afterclose=J leaked=L stack=… stalled=S [lateadd=A lateopen=K] sched=…
      the monitors of one pipeline scenario → accept | reject:<clause>  (C17_pipe_pool_bound, C17_one_pool_per_host
      [hostconns: open sockets of the host across ALL pool objects at a drained quiescent point], C17_pipe_no_conn_after_close,
      C17_pipe_session_close_leaves_nothing [afterclose / leaked count EVERYTHING that is open / left after Session.Close;
      lateadd = pools found registered after policyConnPool.Close() — C17_pipe_closed_session_registers_nothing wants 0 —,
      lateopen = the open connections of such a pool (informative)], C17_hs_reporters_terminate)
  hsmodel <code|buf> act …   the setupConn result protocol → final state or `stuck`
  poolobs size=N maxconns=M maxopen=K final=F afterclose=J
      what a monitor goroutine saw on a real Session: the largest len(pool.conns), the largest number of
      simultaneously open sockets to that host, the pool's size at quiescence before Close, open sockets
      after Close  → accept | reject:<clause>   (clauses = theorems C17_pool_bound / C17_no_conn_after_close;
      `final` must equal `size`: lost connections are replaced)
  debrace <kind> rounds=R hung=H       → accept iff H = 0 (C17_debouncer_stop_returns)
  sessclose returned=1 panics=0 again=1 queryerr=closed open=0  → accept iff exactly that
  model <size> <act> <act> ...         → conns/pending/filling/closed/opened after the run, or `stuck`
  deb : act act …      a conducted schedule of one refreshDebouncer (acts: now deb fin finE stop; refreshFn is held by the
      harness until fin/finE) → `<flusher>:<one letter per waiter>` after every action (p pending, r result, e error
      result, c closed channel), initial state first
  debobs waiters=N stranded=S late=L stopret=B exited=B sched=…   monitors of one debouncer schedule: a waiter — whenever
      it was registered, `late` of them after the flusher had returned — that is never released (C17_waiters_released),
      stop() returns (C17_debouncer_stop_returns), the flusher exits (C17_flusher_exits)
  debwait rounds=R early=E stranded=S stophung=H flusherleft=F    the same monitors over racing rounds
  sessref waiters=N returned=M closeret=B leaked=L stack=… open=O    Session.refreshRing callers pending across Session.Close -/
def step (_ : Unit) (ws : List String) : Unit × String :=
  ((), match ws with
  | "pipe" :: r =>
      match pipeCfg r, r.dropWhile (· ≠ ":") with
      | some c, _ :: acts =>
        if c.size = 0 then "bad-op" else
        let h := Pipe.Host.init c
        let h := autoStop h 1
        ";".intercalate (showHost h :: runMacro h acts)
      | _, _ => "bad-op"
  | "pipeobs" :: r =>
      match kv r "size", kv r "maxconns", kv r "orphans", kv r "closedconns", kv r "afterclose", kv r "leaked", kv r "stalled" with
      | some n, some m, some o, some c, some j, some l, some st =>
        if m > n then s!"reject:pool-holds-{m}-of-{n}"
        else if (kv r "hostconns").getD 0 > n then s!"reject:host-holds-{(kv r "hostconns").getD 0}-of-{n}"
        else if c > 0 then s!"reject:closed-pool-holds-{c}"
        else if o > 0 then s!"reject:open-socket-outside-open-pool-{o}"
        else if j > 0 then s!"reject:open-after-close-{j}"
        else if l > 0 then s!"reject:goroutines-left-in-gocql-{l}:{(kvs r "stack").getD "?"}"
        else if (kv r "lateadd").getD 0 > 0 then s!"reject:pool-registered-after-policyConnPool.Close-{(kv r "lateadd").getD 0}"
        else if st > 0 then "reject:no-quiescence"
        else "accept"
      | _, _, _, _, _, _, _ => "bad-op"
  | "evd" :: ":" :: acts =>
      ";".intercalate (showEvd EvStop.init :: runEvdMacro EvStop.init acts)
  | "evdobs" :: r =>
      match kv r "stopret", kv r "flusherleft", kv r "leaked" with
      | some sr, some fl, some l =>
        if sr ≠ 1 then "reject:stop-did-not-return"
        else if fl > 0 then s!"reject:flusher-did-not-exit-{fl}"
        else if l > 0 then s!"reject:goroutines-left-in-gocql-{l}"
        else "accept"
      | _, _, _ => "bad-op"
  | "evdsess" :: r =>
      match kv r "closeret", kv r "leaked", kvs r "queryerr" with
      | some c, some l, some q =>
        if c ≠ 1 then "reject:close-did-not-return"
        else if l > 0 then s!"reject:goroutines-left-in-gocql-{l}:{(kvs r "stack").getD "?"}"
        else if q != "closed" then s!"reject:query-after-close-{q}"
        else "accept"
      | _, _, _ => "bad-op"
  | "evdrace" :: r =>
      match kv r "hung", kv r "flusherleft" with
      | some h, some f =>
        if h > 0 then s!"reject:stop-hung-{h}" else if f > 0 then s!"reject:flusher-did-not-exit-{f}" else "accept"
      | _, _ => "bad-op"
  | "ctl" :: ":" :: acts =>
      match Ctl.step Ctl.init .hbStart with
      | some s0 => ";".intercalate (showCtl s0 :: runCtlMacro s0 acts)
      | none => "bad-op"
  | ["ctlunit", a, b] =>
      -- whose first instruction runs first on a fresh controlConn: the heartbeat goroutine's CAS or close()'s
      let acts : Option (List Ctl.Act) :=
        if a == "hb" && b == "close" then some [.hbStart, .close] else
        if a == "close" && b == "hb" then some [.close, .closeConn, .hbStart] else none
      match acts.bind (Ctl.run Ctl.init) with
      | some s => showCtl (ctlSettle s 4)
      | none => "bad-op"
  | "retry" :: r =>
      match kv r "n", kvs r "fates" with
      | some n, some fs =>
        let cs := if fs == "-" then [] else fs.toList
        let f : Nat → Retry.Dial := fun i => match cs[i]? with
          | some 't' => .temp | some 'p' => .perm | _ => .ok
        let (res, dials) := Retry.connect n f
        let (c, z) := Retry.appended res
        let (rs, pk) := match res with
          | .conn _ => ("conn", "ok") | .err => ("err", "none") | .nilNoErr => ("nil", "nilderef")
        s!"res={rs} dials={dials} conns={c} nil={z} pick={pk}"
      | _, _ => "bad-op"
  | "retryobs" :: r =>
      match kv r "n", kv r "dials", kv r "nil", kvs r "pick" with
      | some n, some d, some z, some pk =>
        if d > n then s!"reject:attempts-{d}-of-{n}"
        else if z > 0 then s!"reject:nil-connection-in-pool-{z}"
        else if pk == "nilderef" then "reject:pick-dereferences-nil-connection"
        else "accept"
      | _, _, _, _ => "bad-op"
  | "ctlobs" :: r =>
      match kv r "closeret", kv r "hbleft", kv r "leaked", kv r "open", kvs r "queryerr" with
      | some c, some h, some l, some o, some q =>
        if c ≠ 1 then "reject:close-did-not-return"
        else if h > 0 then s!"reject:heartbeat-goroutine-left-{h}"
        else if l > 0 then s!"reject:goroutines-left-in-gocql-{l}:{(kvs r "stack").getD "?"}"
        else if o > 0 then s!"reject:open-after-close-{o}"
        else if q != "closed" then s!"reject:query-after-close-{q}"
        else "accept"
      | _, _, _, _, _ => "bad-op"
  | "deb" :: ":" :: acts =>
      let st : WDeb × List Nat := (WDeb.init, [])
      ";".intercalate (showDeb st :: runDebMacro st acts)
  | "debobs" :: r =>
      match kv r "waiters", kv r "stranded", kv r "stopret", kv r "exited" with
      | some _, some s, some sr, some ex =>
        if s > 0 then s!"reject:waiter-never-released-{s}"
        else if sr ≠ 1 then "reject:stop-did-not-return"
        else if ex ≠ 1 then "reject:flusher-did-not-exit"
        else "accept"
      | _, _, _, _ => "bad-op"
  | "debwait" :: r =>
      match kv r "stranded", kv r "stophung", kv r "flusherleft" with
      | some s, some h, some f =>
        if s > 0 then s!"reject:waiter-never-released-{s}"
        else if h > 0 then s!"reject:stop-hung-{h}"
        else if f > 0 then s!"reject:flusher-did-not-exit-{f}"
        else "accept"
      | _, _, _ => "bad-op"
  | "sessref" :: r =>
      match kv r "waiters", kv r "returned", kv r "closeret", kv r "leaked", kv r "open" with
      | some n, some m, some c, some l, some o =>
        if c ≠ 1 then "reject:close-did-not-return"
        else if l > 0 then s!"reject:goroutines-left-in-gocql-{l}:{(kvs r "stack").getD "?"}"
        else if m ≠ n then s!"reject:refreshRing-callers-returned-{m}-of-{n}"
        else if o > 0 then s!"reject:open-after-close-{o}"
        else "accept"
      | _, _, _, _, _ => "bad-op"
  | "hsmodel" :: v :: acts =>
      match acts.mapM parseHsAct with
      | some as =>
        let res := if v == "buf" then Hs.runBuf Hs.St.init as else Hs.run Hs.St.init as
        match res with
        | some s => showHs s
        | none => "stuck"
      | none => "bad-op"
  | "poolobs" :: r =>
      match kv r "size", kv r "maxconns", kv r "maxopen", kv r "final", kv r "afterclose" with
      | some n, some m, some k, some f, some j =>
        if m > n then s!"reject:pool-holds-{m}-of-{n}"
        else if k > n then s!"reject:open-sockets-{k}-of-{n}"
        else if j > 0 then s!"reject:open-after-close-{j}"
        else if f ≠ n then s!"reject:not-refilled-{f}-of-{n}"
        else "accept"
      | _, _, _, _, _ => "bad-op"
  | "debrace" :: _ :: r =>
      match kv r "hung" with
      | some 0 => "accept"
      | some h => s!"reject:stop-hung-{h}"
      | none => "bad-op"
  | ["sessclose", a, b, c, d, e] =>
      if a == "returned=1" && b == "panics=0" && c == "again=1" && d == "queryerr=closed" && e == "open=0" then "accept"
      else s!"reject:{a},{b},{c},{d},{e}"
  | "model" :: sz :: acts =>
      match sz.toNat?, acts.mapM parseAct with
      | some n, some as => match run (Pool.init n) as with
        | some s => s!"conns={s.conns} pending={s.pending} filling={s.filling} closed={s.closed} opened={s.opened}"
        | none => "stuck"
      | _, _ => "bad-op"
  | _ => "bad-op")

end Driver.C17
