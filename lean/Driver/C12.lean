import Model.ValueSpec
import Model.MarshalInterp
import Model.MarshalRepresent
import Model.MarshalHeap
import Model.MarshalMemo
import Driver.Util
namespace Driver.C12
open Util
open ValueSpec (CqlTy CqlVal Bytes)
open Marshal

/-!
Line protocol (prefix notation, one token per word):

  type    ::= ascii | bigint | … | list T | set T | map K V | tuple n T… | udt n name T …
  bytes   ::= - | part(+part)*    part ::= hexdigits | rep:XX:N   (N copies of byte XX; written for runs ≥ 24)
  goval   ::= slrep GT n V (n copies of V) | mapseq K GV n V (map[K]GV{0:V,…,n-1:V}) | nil | unset | nilptr | i K n | ni K n | s hex | ns hex | b hex | bnil | nb hex | nbnil
            | bool 0/1 | nbool 0/1 | f32 bits | nf32 bits | f64 bits | nf64 bits | big n | dec u s | t sec nsec
            | dur ns | cd m d n | uuid hex | a16 hex | ip hex | ptr V | sl GT n V… | slnil GT | arr GT n V…
            | ifs n V… | map GK GV n K V … | mapnil GK GV | mset GK n K… | st n V… | um n name V … | umnil
            | us n name V …
  goty    ::= k K | nk K | string | nstring | bytes | nbytes | bool | nbool | f32 | nf32 | f64 | nf64 | big | dec
            | time | dur | cdur | uuid | a16 | ip | ptr T | slice T | array n T | map K V | iface | ifs n T…
            | struct n T… | umap | ustruct n name T …
ops:
  enc p T V          → ok hex | null | err | crash | unmodelled          (model of gocql.Marshal)
  spec p T V         → ok hex | null | err                               (SPEC: specEnc (interp V))
  cls p T V          → undocumented | excluded | clean                                (the `_partial` hypothesis)
  dec p T hex|null GT     → ok V' | err | crash | unmodelled             (model of gocql.Unmarshal)
  specdec p T hex GT      → ok V' | err | nonconformant | unmodelled     (SPEC: represent (specDec bytes))
  hist ; p T V ; p T V …  → a ; a ; …   each call of a sequence made in one process, answered like `spec`
Printed values carry no Go types; map entries are sorted by their printed key.
-/

/-! ## compact byte strings: `-` | part(+part)*, part ::= hexdigits | rep:XX:N (the grammar of harness/valgen/hexc.go) -/

def parsePartC (p : String) : Option Bytes :=
  match p.splitOn ":" with
  | ["rep", x, n] => do
      let b ← parseHex x
      let n ← n.toNat?
      match b with
      | [y] => if n ≤ 67108864 then some (List.replicate n y) else none
      | _ => none
  | [h] => if h.isEmpty then none else parseHex h
  | _ => none

def parseHexC (s : String) : Option Bytes :=
  if s == "-" then some [] else
  (s.splitOn "+").foldr (fun p acc => do
    let r ← acc
    let b ← parsePartC p
    some (b ++ r)) (some [])

/-- length of the run of `x` at the front, and the rest -/
def runLen (x : UInt8) : List UInt8 → Nat → Nat × List UInt8
  | y :: r, n => if y == x then runLen x r (n+1) else (n, y :: r)
  | [], n => (n, [])

def pushHexN (s : String) (b : UInt8) : Nat → String
  | 0 => s
  | n+1 => pushHexN ((s.push (hexDigit (b.toNat / 16))).push (hexDigit (b.toNat % 16))) b n

def toHexCAux : Nat → List UInt8 → String → Bool → String
  | 0, _, acc, _ => acc
  | _, [], acc, _ => acc
  | fuel+1, x :: r, acc, lit =>
    let (n, rest) := runLen x r 1
    if n ≥ 24 then
      let acc := if acc.isEmpty then acc else acc ++ "+"
      toHexCAux fuel rest (acc ++ "rep:" ++ pushHexN "" x 1 ++ ":" ++ toString n) false
    else
      let acc := if lit || acc.isEmpty then acc else acc ++ "+"
      toHexCAux fuel rest (pushHexN acc x n) true

/-- canonical: every maximal run of ≥ 24 equal bytes as a `rep` part -/
def toHexC (bs : Bytes) : String :=
  if bs.isEmpty then "-" else toHexCAux (bs.length + 1) bs "" false

def parseKind : String → Option IntKind
  | "int" => some .int | "int8" => some .int8 | "int16" => some .int16 | "int32" => some .int32
  | "int64" => some .int64 | "uint" => some .uint | "uint8" => some .uint8 | "uint16" => some .uint16
  | "uint32" => some .uint32 | "uint64" => some .uint64 | _ => none

def kindName : IntKind → String
  | .int => "int" | .int8 => "int8" | .int16 => "int16" | .int32 => "int32" | .int64 => "int64"
  | .uint => "uint" | .uint8 => "uint8" | .uint16 => "uint16" | .uint32 => "uint32" | .uint64 => "uint64"

def scalarTy : String → Option CqlTy
  | "ascii" => some .ascii | "bigint" => some .bigint | "blob" => some .blob | "boolean" => some .boolean
  | "counter" => some .counter | "decimal" => some .decimal | "double" => some .double | "float" => some .float
  | "int" => some .int | "text" => some .text | "timestamp" => some .timestamp | "uuid" => some .uuid
  | "varchar" => some .varchar | "varint" => some .varint | "timeuuid" => some .timeuuid | "inet" => some .inet
  | "date" => some .date | "time" => some .time | "smallint" => some .smallint | "tinyint" => some .tinyint
  | "duration" => some .duration | _ => none

/-- parse `n` items with `f` -/
def pMany {α : Type} (f : List String → Option (α × List String)) : Nat → List String → Option (List α × List String)
  | 0, ws => some ([], ws)
  | n+1, ws => do
      let (a, r) ← f ws
      let (as, r') ← pMany f n r
      some (a :: as, r')

def pTy : Nat → List String → Option (CqlTy × List String)
  | 0, _ => none
  | fuel+1, ws => match ws with
    | "list" :: r => do let (t, r') ← pTy fuel r; some (.list t, r')
    | "set" :: r => do let (t, r') ← pTy fuel r; some (.set t, r')
    | "map" :: r => do
        let (k, r1) ← pTy fuel r
        let (v, r2) ← pTy fuel r1
        some (.map k v, r2)
    | "tuple" :: n :: r => do
        let n ← n.toNat?
        let (ts, r') ← pMany (pTy fuel) n r
        some (.tuple ts, r')
    | "udt" :: n :: r => do
        let n ← n.toNat?
        let (fs, r') ← pMany (fun ws => match ws with
          | name :: r => (pTy fuel r).map (fun (t, r') => ((name, t), r'))
          | [] => none) n r
        some (.udt (fs.map (·.1)) (fs.map (·.2)), r')
    | w :: r => (scalarTy w).map (fun t => (t, r))
    | [] => none

def pGoTy : Nat → List String → Option (GoTy × List String)
  | 0, _ => none
  | fuel+1, ws => match ws with
    | "k" :: k :: r => (parseKind k).map (fun k => (.int k false, r))
    | "nk" :: k :: r => (parseKind k).map (fun k => (.int k true, r))
    | "string" :: r => some (.str false, r)
    | "nstring" :: r => some (.str true, r)
    | "bytes" :: r => some (.bytes false, r)
    | "nbytes" :: r => some (.bytes true, r)
    | "bool" :: r => some (.bool false, r)
    | "nbool" :: r => some (.bool true, r)
    | "f32" :: r => some (.f32 false, r)
    | "nf32" :: r => some (.f32 true, r)
    | "f64" :: r => some (.f64 false, r)
    | "nf64" :: r => some (.f64 true, r)
    | "big" :: r => some (.big, r)
    | "dec" :: r => some (.dec, r)
    | "time" :: r => some (.time, r)
    | "dur" :: r => some (.dur, r)
    | "cdur" :: r => some (.cqldur, r)
    | "uuid" :: r => some (.uuid, r)
    | "a16" :: r => some (.arr16, r)
    | "ip" :: r => some (.ip, r)
    | "iface" :: r => some (.iface, r)
    | "umap" :: r => some (.udtmap, r)
    | "ptr" :: r => do let (t, r') ← pGoTy fuel r; some (.ptr t, r')
    | "slice" :: r => do let (t, r') ← pGoTy fuel r; some (.slice t, r')
    | "array" :: n :: r => do
        let n ← n.toNat?
        let (t, r') ← pGoTy fuel r
        some (.array n t, r')
    | "map" :: r => do
        let (k, r1) ← pGoTy fuel r
        let (v, r2) ← pGoTy fuel r1
        some (.map k v, r2)
    | "ifs" :: n :: r => do
        let n ← n.toNat?
        let (ts, r') ← pMany (pGoTy fuel) n r
        some (.ifaces ts, r')
    | "struct" :: n :: r => do
        let n ← n.toNat?
        let (ts, r') ← pMany (pGoTy fuel) n r
        some (.struct ts, r')
    | "ustruct" :: n :: r => do
        let n ← n.toNat?
        let (fs, r') ← pMany (fun ws => match ws with
          | name :: r => (pGoTy fuel r).map (fun (t, r') => ((name, t), r'))
          | [] => none) n r
        some (.udtstruct (fs.map (·.1)) (fs.map (·.2)), r')
    | _ => none

def pBit : String → Option Bool
  | "0" => some false | "1" => some true | _ => none

def pVal : Nat → List String → Option (GoVal × List String)
  | 0, _ => none
  | fuel+1, ws => match ws with
    | "nil" :: r => some (.nil, r)
    | "unset" :: r => some (.unset, r)
    | "nilptr" :: r => some (.nilptr, r)
    | "i" :: k :: n :: r => do let k ← parseKind k; let n ← n.toInt?; some (.int k false n, r)
    | "ni" :: k :: n :: r => do let k ← parseKind k; let n ← n.toInt?; some (.int k true n, r)
    | "s" :: h :: r => (parseHexC h).map (fun b => (.str false b, r))
    | "ns" :: h :: r => (parseHexC h).map (fun b => (.str true b, r))
    | "b" :: h :: r => (parseHexC h).map (fun b => (.bytes false false b, r))
    | "bnil" :: r => some (.bytes false true [], r)
    | "nb" :: h :: r => (parseHexC h).map (fun b => (.bytes true false b, r))
    | "nbnil" :: r => some (.bytes true true [], r)
    | "bool" :: x :: r => (pBit x).map (fun b => (.bool false b, r))
    | "nbool" :: x :: r => (pBit x).map (fun b => (.bool true b, r))
    | "f32" :: x :: r => x.toNat?.map (fun n => (.f32 false n, r))
    | "nf32" :: x :: r => x.toNat?.map (fun n => (.f32 true n, r))
    | "f64" :: x :: r => x.toNat?.map (fun n => (.f64 false n, r))
    | "nf64" :: x :: r => x.toNat?.map (fun n => (.f64 true n, r))
    | "big" :: n :: r => n.toInt?.map (fun n => (.big n, r))
    | "dec" :: u :: s :: r => do let u ← u.toInt?; let s ← s.toInt?; some (.dec u s, r)
    | "t" :: a :: b :: r => do let a ← a.toInt?; let b ← b.toInt?; some (.time a b, r)
    | "dur" :: n :: r => n.toInt?.map (fun n => (.dur n, r))
    | "cd" :: m :: d :: n :: r => do let m ← m.toInt?; let d ← d.toInt?; let n ← n.toInt?; some (.cqldur m d n, r)
    | "uuid" :: h :: r => (parseHexC h).map (fun b => (.uuid b, r))
    | "a16" :: h :: r => (parseHexC h).map (fun b => (.arr16 b, r))
    | "ip" :: h :: r => (parseHexC h).map (fun b => (.ip b, r))
    | "ptr" :: r => do let (v, r') ← pVal fuel r; some (.ptr v, r')
    | "sl" :: r => do
        let (_, r0) ← pGoTy fuel r
        match r0 with
        | n :: r1 => do
            let n ← n.toNat?
            let (vs, r') ← pMany (pVal fuel) n r1
            some (.slice false vs, r')
        | [] => none
    | "slnil" :: r => do let (_, r0) ← pGoTy fuel r; some (.slice true [], r0)
    | "slrep" :: r => do
        let (_, r0) ← pGoTy fuel r
        match r0 with
        | n :: r1 => do
            let n ← n.toNat?
            let (v, r') ← pVal fuel r1
            some (.slice false (List.replicate n v), r')
        | [] => none
    | "mapseq" :: k :: r => do
        let k ← parseKind k
        let (_, r0) ← pGoTy fuel r
        match r0 with
        | n :: r1 => do
            let n ← n.toNat?
            let (v, r') ← pVal fuel r1
            some (.map false ((List.range n).map (fun j => (GoVal.int k false (j : Nat), v))), r')
        | [] => none
    | "arr" :: r => do
        let (_, r0) ← pGoTy fuel r
        match r0 with
        | n :: r1 => do
            let n ← n.toNat?
            let (vs, r') ← pMany (pVal fuel) n r1
            some (.array vs, r')
        | [] => none
    | "ifs" :: n :: r => do
        let n ← n.toNat?
        let (vs, r') ← pMany (pVal fuel) n r
        some (.ifaces vs, r')
    | "map" :: r => do
        let (_, r0) ← pGoTy fuel r
        let (_, r1) ← pGoTy fuel r0
        match r1 with
        | n :: r2 => do
            let n ← n.toNat?
            let (kvs, r') ← pMany (fun ws => do
              let (k, a) ← pVal fuel ws
              let (v, b) ← pVal fuel a
              some ((k, v), b)) n r2
            some (.map false kvs, r')
        | [] => none
    | "mapnil" :: r => do
        let (_, r0) ← pGoTy fuel r
        let (_, r1) ← pGoTy fuel r0
        some (.map true [], r1)
    | "mset" :: r => do
        let (_, r0) ← pGoTy fuel r
        match r0 with
        | n :: r1 => do
            let n ← n.toNat?
            let (vs, r') ← pMany (pVal fuel) n r1
            some (.mapset vs, r')
        | [] => none
    | "st" :: n :: r => do
        let n ← n.toNat?
        let (vs, r') ← pMany (pVal fuel) n r
        some (.struct vs, r')
    | "um" :: n :: r => do
        let n ← n.toNat?
        let (fs, r') ← pMany (fun ws => match ws with
          | name :: r => (pVal fuel r).map (fun (v, r') => ((name, v), r'))
          | [] => none) n r
        some (.udtmap false (fs.map (·.1)) (fs.map (·.2)), r')
    | "umnil" :: r => some (.udtmap true [] [], r)
    | "us" :: n :: r => do
        let n ← n.toNat?
        let (fs, r') ← pMany (fun ws => match ws with
          | name :: r => (pVal fuel r).map (fun (v, r') => ((name, v), r'))
          | [] => none) n r
        some (.udtstruct (fs.map (·.1)) (fs.map (·.2)), r')
    | _ => none

/-! ## printing -/

def appendN (acc : String) (s : String) : Nat → String
  | 0 => acc
  | n+1 => appendN (acc ++ " " ++ s) s n

def flushRun (acc prev : String) (cnt : Nat) : String :=
  if cnt ≥ 8 then acc ++ " rep " ++ toString cnt ++ " " ++ prev else appendN acc prev cnt

def insertSorted (x : String × String) : List (String × String) → List (String × String)
  | [] => [x]
  | y :: r => if x.1 < y.1 then x :: y :: r else y :: insertSorted x r

def zipNames : List String → List String → List String
  | n :: ns, v :: vs => (n ++ " " ++ v) :: zipNames ns vs
  | _, _ => []

mutual
def showVal : GoVal → String
  | .nil => "nil"
  | .unset => "unset"
  | .nilptr => "nilptr"
  | .int k named v => (if named then "ni " else "i ") ++ kindName k ++ " " ++ toString v
  | .str named s => (if named then "ns " else "s ") ++ toHexC s
  | .bytes named isNil b => if isNil then (if named then "nbnil" else "bnil") else (if named then "nb " else "b ") ++ toHexC b
  | .bool named b => (if named then "nbool " else "bool ") ++ (if b then "1" else "0")
  | .f32 named x => (if named then "nf32 " else "f32 ") ++ toString x
  | .f64 named x => (if named then "nf64 " else "f64 ") ++ toString x
  | .big v => "big " ++ toString v
  | .dec u s => "dec " ++ toString u ++ " " ++ toString s
  | .time a b => "t " ++ toString a ++ " " ++ toString b
  | .dur n => "dur " ++ toString n
  | .cqldur m d n => "cd " ++ toString m ++ " " ++ toString d ++ " " ++ toString n
  | .uuid b => "uuid " ++ toHexC b
  | .arr16 b => "a16 " ++ toHexC b
  | .ip b => "ip " ++ toHexC b
  | .ptr v => "ptr " ++ showVal v
  | .slice isNil vs => if isNil then "slnil" else "sl " ++ toString vs.length ++ showVals vs
  | .array vs => "arr " ++ toString vs.length ++ showVals vs
  | .ifaces vs => "ifs " ++ toString vs.length ++ showVals vs
  | .map isNil kvs => if isNil then "mapnil" else
      let es := (showPairs kvs).foldl (fun acc x => insertSorted x acc) []
      "map " ++ toString kvs.length ++ es.foldl (fun acc (k, v) => acc ++ " " ++ k ++ " " ++ v) ""
  | .mapset ks => "mset " ++ toString ks.length ++ showVals ks
  | .struct vs => "st " ++ toString vs.length ++ showVals vs
  | .udtmap isNil names vs => if isNil then "umnil" else
      let es := ((names.zip (showValList vs))).foldl (fun acc x => insertSorted x acc) []
      "um " ++ toString vs.length ++ es.foldl (fun acc (k, v) => acc ++ " " ++ k ++ " " ++ v) ""
  | .udtstruct names vs =>
      "us " ++ toString vs.length ++ (zipNames names (showValList vs)).foldl (fun acc x => acc ++ " " ++ x) ""
def showVals (vs : List GoVal) : String := showValsRL vs "" 0 ""
/-- run-length printing: a run of ≥ 8 equal adjacent printed elements is written ` rep k elem`
    (state: previous printed element, its count so far, output so far) -/
def showValsRL : List GoVal → String → Nat → String → String
  | [], prev, cnt, acc => flushRun acc prev cnt
  | v :: vs, prev, cnt, acc =>
    let s := showVal v
    if cnt > 0 && s == prev then showValsRL vs prev (cnt+1) acc
    else showValsRL vs s 1 (flushRun acc prev cnt)
def showValList : List GoVal → List String
  | [] => []
  | v :: vs => showVal v :: showValList vs
def showPairs : List (GoVal × GoVal) → List (String × String)
  | [] => []
  | (k, v) :: r => (showVal k, showVal v) :: showPairs r
end

def showM : MRes → String
  | .ok (some b) => "ok " ++ toHexC b
  | .ok none => "null"
  | .err => "err"
  | .crash => "crash"
  | .unmodelled => "unmodelled"

def showU : URes → String
  | .ok v => "ok " ++ showVal v
  | .err => "err"
  | .crash => "crash"
  | .unmodelled => "unmodelled"

/-- `[]byte(nil)` and `[]byte{}` both denote the empty byte string: the semantic printer does not distinguish them
    at the top of a decoded scalar (used by `specdec` only) -/
def normBytes : GoVal → GoVal
  | .bytes named true _ => .bytes named false []
  | .ptr v => .ptr (normBytes v)
  | g => g

/-! ## ops -/

def parseData (w : String) : Option (Option Bytes) :=
  if w == "null" then some none else (parseHexC w).map some

def specAnswer (p : Nat) (t : CqlTy) (g : GoVal) : String :=
  match interp t g with
  | none => "err"
  | some .null => "null"
  | some v => (match ValueSpec.specEnc p t v with
      | some b => "ok " ++ toHexC b
      | none => "err")

def specDecAnswer (p : Nat) (t : CqlTy) (b : Bytes) (ty : GoTy) : String :=
  match ValueSpec.specDec p t b with
  | none => "nonconformant"
  | some v => (match representAny t ty v with
      | .ok g => "ok " ++ showVal (normDeep g)
      | .err => "err"
      | _ => "unmodelled")

def runTV (f : Nat → CqlTy → GoVal → String) (ws : List String) : String :=
  match ws with
  | p :: r => (match p.toNat? with
      | none => "bad-op"
      | some p => (match pTy (r.length + 1) r with
          | none => "bad-op"
          | some (t, r1) => (match pVal (r1.length + 1) r1 with
              | some (g, []) => f p t g
              | _ => "bad-op")))
  | [] => "bad-op"

def runDec (f : Nat → CqlTy → Option Bytes → GoTy → String) (ws : List String) : String :=
  match ws with
  | p :: r => (match p.toNat? with
      | none => "bad-op"
      | some p => (match pTy (r.length + 1) r with
          | some (t, d :: r1) => (match parseData d, pGoTy (r1.length + 1) r1 with
              | some data, some (ty, []) => f p t data ty
              | _, _ => "bad-op")
          | _ => "bad-op"))
  | [] => "bad-op"


/-! ## held results (ops `held`, `conn`): the heap machine of Model/MarshalHeap.lean, discipline `fresh`
    (the code that exists), calls answered by the SPECIFICATION (`MarshalHeap.callSig`).

    `held <procs> <step> ; <step> ; …` — steps:
      `h <slot> <s|g> p T V`        Marshal and KEEP the returned slice (`g`: the call runs in another goroutine, joined)
      `x <s|g> p T V`               Marshal, result dropped at once
      `u <slot> <s|g> p T hex GT`   Unmarshal into a new target of that Go type and KEEP the decoded value
      `y <s|g> p T hex GT`          Unmarshal, result dropped
      `c <slot>`                    what the holder reads now (bytes / the decoded value)
      `i <slot>`                    is the caller's memory (every byte slice of the Go value / the data buffer) still what
                                    it passed?
      `m <slot> <xx>`               the caller re-uses its input AFTER the call: every byte of every byte slice of the
                                    Go value (Marshal) / of the data buffer (Unmarshal) `^= xx`
      `d <slot>`                    drop
    `conn <proto> <q|b> ; s ; v p T V ; v p T V ; s ; …` — one statement (q) or a batch (b) with these bind values
      through the real Session.Query / ExecuteBatch → Conn.executeQuery / executeBatch against a scripted peer:
      the value bytes the peer reads from the EXECUTE / BATCH frame (all values are encoded first, then written:
      hold 0 … hold n-1, then read 0 … n-1). -/

open MarshalHeap in
def parseTV3 (ws : List String) : Option (Nat × CqlTy × GoVal) :=
  match ws with
  | p :: r => do
      let p ← p.toNat?
      let (t, r1) ← pTy (r.length + 1) r
      match pVal (r1.length + 1) r1 with
      | some (g, []) => some (p, t, g)
      | _ => none
  | [] => none

def parseDec4 (ws : List String) : Option (Nat × CqlTy × GoTy × Bytes) :=
  match ws with
  | p :: r => do
      let p ← p.toNat?
      match pTy (r.length + 1) r with
      | some (t, d :: r1) => (match parseHexC d, pGoTy (r1.length + 1) r1 with
          | some data, some (ty, []) => some (p, t, ty, data)
          | _, _ => none)
      | _ => none
  | [] => none

def splitSteps (ws : List String) : List (List String) :=
  let r := ws.foldr (fun w (acc : List String × List (List String)) =>
    if w == ";" then ([], acc.1 :: acc.2) else (w :: acc.1, acc.2)) ([], [])
  r.1 :: r.2

abbrev HSt := MarshalHeap.St MarshalHeap.Call

def heldStepM (s : HSt) (a : MarshalHeap.Call) (k : Option Nat) : HSt × String :=
  let ans := match a with
    | .enc p t g => (match MarshalHeap.specEncode p t g with
        | none => "err" | some none => "null" | some (some _) => "ok")
    | .dec p t ty data => (match MarshalHeap.specDecode p t ty data with
        | none => "err" | some _ => "ok")
  match k with
  | some k => (MarshalHeap.step .fresh MarshalHeap.callSig s (.hold k a), ans)
  | none =>
    let s' := MarshalHeap.step .fresh MarshalHeap.callSig s (.hold 1000000 a)
    (MarshalHeap.step .fresh MarshalHeap.callSig s' (.drop 1000000), ans)

def showHeld (s : HSt) (k : Nat) : String :=
  match s.lookup k, s.chk k with
  | some sl, some bs =>
    (match sl.arg with
     | .enc _ _ _ => (match bs with
        | [b] => toHexC b
        | _ => "bad-result")
     | .dec p t ty data => (match MarshalHeap.specDecode p t ty data with
        | some g => "ok " ++ showVal (normDeep (MarshalHeap.setLeaves g bs).1)
        | none => "bad-result"))
  | _, _ => "none"

def parseHexByte1 (s : String) : Option UInt8 :=
  match parseHex s with
  | some [b] => some b
  | _ => none

def heldStep (s : HSt) (ws : List String) : HSt × String :=
  match ws with
  | "h" :: slot :: _ :: r => (match slot.toNat?, parseTV3 r with
      | some k, some (p, t, g) => heldStepM s (.enc p t g) (some k)
      | _, _ => (s, "bad-step"))
  | "x" :: _ :: r => (match parseTV3 r with
      | some (p, t, g) => heldStepM s (.enc p t g) none
      | none => (s, "bad-step"))
  | "u" :: slot :: _ :: r => (match slot.toNat?, parseDec4 r with
      | some k, some (p, t, ty, data) => heldStepM s (.dec p t ty data) (some k)
      | _, _ => (s, "bad-step"))
  | "y" :: _ :: r => (match parseDec4 r with
      | some (p, t, ty, data) => heldStepM s (.dec p t ty data) none
      | none => (s, "bad-step"))
  | ["c", slot] => (match slot.toNat? with
      | some k => (s, s!"s{k}={showHeld s k}")
      | none => (s, "bad-step"))
  | ["i", slot] => (match slot.toNat? with
      | some k => (match s.lookup k, s.input k with
          | some sl, some bs => (s, s!"in{k}={if bs == MarshalHeap.callSig.ins sl.arg then "same" else "changed"}")
          | _, _ => (s, s!"in{k}=none"))
      | none => (s, "bad-step"))
  | ["m", slot, xx] => (match slot.toNat?, parseHexByte1 xx with
      | some k, some x => (MarshalHeap.step .fresh MarshalHeap.callSig s (.mutIn k x), "ok")
      | _, _ => (s, "bad-step"))
  | ["d", slot] => (match slot.toNat? with
      | some k => (MarshalHeap.step .fresh MarshalHeap.callSig s (.drop k), "ok")
      | none => (s, "bad-step"))
  | _ => (s, "bad-step")

def runHeld (steps : List (List String)) : String :=
  let r := steps.foldl (fun (acc : HSt × List String) st => let p := heldStep acc.1 st; (p.1, p.2 :: acc.2))
    (MarshalHeap.St.init, [])
  " ; ".intercalate r.2.reverse

/-- `conn`: every `v` step is a bind value: all of them are encoded (held) first, then the frame is written (read) -/
def runConn (steps : List (List String)) : String :=
  -- phase 1: hold
  let r := steps.foldl (fun (acc : HSt × Nat × List (Option Nat) × Bool) st =>
    let (s, n, ks, bad) := acc
    match st with
    | ["s"] => (s, n, none :: ks, bad)
    | "v" :: tv => (match parseTV3 tv with
        | some (p, t, g) => (MarshalHeap.step .fresh MarshalHeap.callSig s (.hold n (.enc p t g)), n + 1, some n :: ks, bad)
        | none => (s, n, ks, true))
    | _ => (s, n, ks, true)) (MarshalHeap.St.init, 0, [], false)
  let (s, _, ks, bad) := r
  if bad then "bad-op" else
  " ; ".intercalate (ks.reverse.map fun
    | none => "s"
    | some k => (match s.lookup k with
        | some _ => showHeld s k
        | none => "null"))

/-- `hist ; p T V ; p T V ; …`: a sequence of Marshal calls made in ONE process (the same Go type for several type
    descriptions: look-alike UDT definitions, tuples of different arity, collections with different element types);
    every call is answered by the SPECIFICATION from its own (type, value) — the stateless process
    `MarshalMemo.pureRun` (C12_history_independent) -/
def runHist (steps : List (List String)) : String :=
  let calls := steps.map parseTV3
  if calls.any Option.isNone then "bad-op" else
  " ; ".intercalate (MarshalMemo.pureRun (fun c : Nat × CqlTy × GoVal => specAnswer c.1 c.2.1 c.2.2) ()
    (calls.filterMap id))

def step (_ : Unit) (ws : List String) : Unit × String :=
  ((), match ws with
  | "enc" :: r => runTV (fun p t g => showM (marshal p t g)) r
  | "spec" :: r => runTV specAnswer r
  | "cls" :: r => runTV classify r
  | "dec" :: r => runDec (fun p t data ty => showU (unmarshal p t ty data)) r
  | "specdec" :: r => runDec (fun p t data ty => match data with
      | some b => specDecAnswer p t b ty
      | none => "bad-op") r
  | "hist" :: ";" :: r => runHist (splitSteps r)
  | "held" :: _ :: r => runHeld (splitSteps r)
  | "conn" :: _ :: _ :: ";" :: r => runConn (splitSteps r)
  | _ => "bad-op")

def init : Unit := ()
end Driver.C12
