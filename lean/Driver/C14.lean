import Model.LRU
import Model.Prepare
import Driver.Util
namespace Driver.C14
open Util

/-- driver state: a plain LRU (string values) and the prepared-cache protocol state -/
structure St where
  lru  : LRU.Cache String String
  prep : Prepare.State String

def init : St := { lru := LRU.new 0, prep := Prepare.init 0 }

def showEv (l : List (String × String)) : String :=
  if l.isEmpty then "-" else ",".intercalate (l.map fun e => e.1 ++ ":" ++ e.2)

def showEvN (l : List (String × Nat)) : String := showEv (l.map fun e => (e.1, toString e.2))

def evOf : Prepare.Event String → Option (String × Nat)
  | .evicted k f => some (k, f)
  | .failRemoved k f => some (k, f)
  | .unprepRemoved k f => some (k, f)
  | _ => none

def newEv (s s' : Prepare.State String) : String :=
  showEvN ((s'.log.drop s.log.length).filterMap evOf)

def key (h ks st : String) : String := String.ofList (Prepare.keyFor h.toList ks.toList st.toList)

def unq (s : String) : String := if s == "-" then "" else s

/-- expected facts about conn.go prepareStatement (checked on the AST by the harness) -/
def astExpect : String :=
  "closure-adds=1 defer-close-first=true err-assign=4 removes=3 remove-by-key=true waits-done=true waits-ctx=true unprepared-evicts-then-retries=true"


/-! ### session tier: observed histories of real Sessions, judged by the observable-level specification `Obs`

  trace <ev> <ev> ...        → accept | reject:<index>:<event>:<clause>
  events (no blanks inside):
    S:<c>:<q|b>:<key>/<nvals>,...        call c starts (query / batch), entries
    P:<f>:<key>:ok/<idhex>/<ncols>       the server received PREPARE number f of <key> and answers PREPARED
    P:<f>:<key>:err                      ... answers with an error
    R:<key>:<f>                          flight f left the statement cache (OnEvicted)
    X:<c>:<idhex>,...:<ok|err|un/<idhex>> the server received call c's EXECUTE / BATCH with these ids and answers
    T:<c>:<ok|xe|ce|pe/<f>>              call c returned: success, the server's execute error, value-count error,
                                         the failure of PREPARE f
    H:<c>                                watchdog: call c did not return, a goroutine is blocked inside gocql
    L:<c>                                call c keeps re-sending frames without the re-PREPAREs that UNPREPARED answers
                                         must cause (more frames than 20 + 3·(PREPAREs + scripted losses so far))
    C                                    panic inside gocql
  anything else is an event the specification does not have (rejected). -/

def parseEntry (w : String) : Option (String × Nat) :=
  match w.splitOn "/" with
  | [k, n] => n.toNat?.map fun n => (k, n)
  | _ => none

def parseXAns (ws : List String) : Option PConn.XAns :=
  match ws with
  | ["ok"] => some .ok
  | ["err"] => some .err
  | [u] => match u.splitOn "/" with
    | ["un", id] => (parseHex id).map .unprep
    | _ => none
  | _ => none

def parseEv (w : String) : Option (PConn.Ev String) :=
  match w.splitOn ":" with
  | ["S", c, kind, es] =>
    match c.toNat?, (es.splitOn ",").mapM parseEntry with
    | some c, some es => if kind == "q" || kind == "b" then some (.start c (kind == "b") es) else none
    | _, _ => none
  | ["P", f, k, r] =>
    match f.toNat?, r.splitOn "/" with
    | some f, ["err"] => some (.prep f k none)
    | some f, ["ok", id, n] =>
      match parseHex id, n.toNat? with
      | some id, some n => some (.prep f k (some (id, n)))
      | _, _ => none
    | _, _ => none
  | ["R", k, f] => f.toNat?.map fun f => .rm k f
  | "X" :: c :: ids :: a =>
    match c.toNat?, (ids.splitOn ",").mapM parseHex, parseXAns a with
    | some c, some ids, some a => some (.exec c ids a)
    | _, _, _ => none
  | ["T", c, o] =>
    match c.toNat?, o.splitOn "/" with
    | some c, ["ok"] => some (.ret c .ok)
    | some c, ["xe"] => some (.ret c .execErr)
    | some c, ["ce"] => some (.ret c .countErr)
    | some c, ["pe", f] => f.toNat?.map fun f => .ret c (.prepErr f)
    | _, _ => none
  | ["H", c] => c.toNat?.map .hang
  | ["L", c] => c.toNat?.map .hang
  | ["C"] => some .crash
  | _ => none

/-- which clause of the specification rejects event `e` in state `o` (diagnostics only) -/
def why (o : Obs.OState String) : PConn.Ev String → String
  | .start c _ es =>
    if c ≠ o.callers.length then "call-number-out-of-order" else if es = [] then "no-entries" else "?"
  | .prep f k _ =>
    if o.credit k = 0 then "second-PREPARE-while-the-statement-is-cached(single-flight)"
    else if !(o.callers.any fun cl => cl.pc.live && Obs.hasKey cl.entries k) then "PREPARE-without-an-execution-of-that-statement"
    else match o.flights f with
      | some fl => if fl.key ≠ k then "flight-of-another-key" else "PREPARE-number-reused"
      | none => "?"
  | .rm k f =>
    match o.flights f with
    | some fl => if fl.key ≠ k then "removed-under-another-key" else "flight-removed-twice"
    | none => "?"
  | .exec c ids _ =>
    match o.callers[c]? with
    | none => "unknown-call"
    | some cl =>
      if !cl.pc.live then "frame-from-a-call-that-is-not-running"
      else if ids.length ≠ cl.entries.length then "number-of-ids"
      else "id-not-returned-by-a-current-PREPARE-of-that-statement-on-that-host-with-that-many-columns(id-belongs/value-count)"
  | .ret c out =>
    match o.callers[c]? with
    | none => "unknown-call"
    | some cl =>
      match out with
      | .ok => "ok-without-an-ok-answer"
      | .execErr => "execute-error-without-such-an-answer"
      | .countErr => "value-count-error-without-a-mismatching-PREPARE"
      | .prepErr f =>
        if !cl.pc.live then "prepare-error-from-a-call-that-is-not-running"
        else if cl.banned f then "failure-served-from-cache(reported-to-a-call-that-began-after-it-was-known)"
        else match o.flights f with
          | none => "failure-of-an-unknown-PREPARE"
          | some fl =>
            if fl.ans ≠ some none then "PREPARE-did-not-fail"
            else if !fl.removed then "failure-reported-while-still-cached(failed-flight-published)"
            else "failure-of-another-statement"
  | .crash => "panic-inside-gocql"
  | .hang _ => "execution-never-returned(every-frame-answered;goroutine-blocked-inside-gocql)"

def judge (ws : List String) : String :=
  match ws.mapM parseEv with
  | none =>
    match ws.find? (fun w => (parseEv w).isNone) with
    | some w => "reject:event-outside-the-specification:" ++ w
    | none => "reject:unparsable"
  | some evs =>
    match Obs.firstReject Obs.init evs 0 with
    | none => "accept"
    | some (i, o) =>
      let w := ws.getD i "?"
      if w.startsWith "L:" then s!"reject:{i}:{w}:execution-does-not-terminate(frames-re-sent-without-re-PREPARE)"
      else s!"reject:{i}:{w}:{why o (evs.getD i .crash)}"

def step (s : St) (ws : List String) : St × String :=
  match ws with
  | ["reset", "lru", cap] => ({ s with lru := LRU.new (cap.toInt?.getD 0) }, "ok")
  | ["reset", "plru", cap] => ({ s with prep := Prepare.init (cap.toInt?.getD 0) }, "ok")
  | ["add", k, v] =>
    let r := s.lru.add k v
    ({ s with lru := r.1 }, s!"ev={showEv r.2} len={r.1.len}")
  | ["get", k] =>
    let r := s.lru.get k
    ({ s with lru := r.2 }, match r.1 with | some v => "hit:" ++ v | none => "miss")
  | ["remove", k] =>
    let r := s.lru.remove k
    ({ s with lru := r.2.1 }, s!"{r.1} ev={showEv r.2.2} len={r.2.1.len}")
  | ["oldest"] =>
    let r := s.lru.removeOldest
    ({ s with lru := r.1 }, s!"ev={showEv r.2} len={r.1.len}")
  | ["drain"] =>
    ({ s with lru := { s.lru with items := [] } }, "ev=" ++ showEv s.lru.items.reverse)
  | ["lookup", h, ks, st] =>
    let k := key (unq h) (unq ks) (unq st)
    let hit := s.prep.cache.find k
    match Prepare.step s.prep (.lookup k) with
    | none => (s, "rejected")
    | some p' =>
      let f := match hit with | some f => f | none => s.prep.flights.length
      ({ s with prep := p' }, s!"{if hit.isSome then "hit" else "miss"} f={f} ev={newEv s.prep p'} len={p'.cache.len}")
  | ["complete", f, r, id] =>
    match f.toNat?, parseHex id with
    | some f, some idb =>
      match Prepare.step s.prep (.complete f (if r == "ok" then some idb else none)) with
      | none => (s, "rejected")
      | some p' => ({ s with prep := p' }, s!"done ev={newEv s.prep p'} len={p'.cache.len}")
    | _, _ => (s, "bad-op")
  | ["outcome", f] =>
    match f.toNat? with
    | some f => (s, match Prepare.outcome s.prep f with
        | some .inflight => "inflight" | some .failed => "failed"
        | some (.ok id) => "ok:" ++ toHex id | none => "none")
    | none => (s, "bad-op")
  | ["unprep", h, ks, st, id] =>
    match parseHex id with
    | some idb =>
      let k := key (unq h) (unq ks) (unq st)
      match Prepare.step s.prep (.unprepared k idb) with
      | none => (s, "rejected")
      | some p' =>
        if p'.crashed then (s, "crash:nil prepared statement")
        else ({ s with prep := p' }, s!"ev={newEv s.prep p'} len={p'.cache.len}")
    | none => (s, "bad-op")
  | ["pdrain"] =>
    let p := s.prep
    ({ s with prep := { p with cache := { p.cache with items := [] } } }, "ev=" ++ showEvN p.cache.items.reverse)
  | ["ast", "prepareStatement"] => (s, astExpect)
  | "trace" :: evs => (s, judge evs)
  | ["cachelen", cp, mx] =>
    -- C14_lru_refines_map: len ≤ cap for cap > 0 (0 = unbounded)
    match (cp.splitOn "=").getD 1 "" |>.toInt?, (mx.splitOn "=").getD 1 "" |>.toNat? with
    | some c, some m => (s, if c ≤ 0 ∨ (m : Int) ≤ c then "accept" else s!"reject:cache-holds-{m}-of-{c}")
    | _, _ => (s, "bad-op")
  | _ => (s, "bad-op")

end Driver.C14
