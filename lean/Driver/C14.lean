import Model.LRU
import Model.Prepare
import Driver.Util
namespace Driver.C14
open Util

/-- driver state: a plain LRU (string values) and the prepared-cache protocol state -/
structure St where
  lru  : LRU.Cache String String
  prep : Prepare.State String

def init : St := { lru := LRU.new 0, prep := Prepare.init 0 }

def showEv (l : List (String × String)) : String :=
  if l.isEmpty then "-" else ",".intercalate (l.map fun e => e.1 ++ ":" ++ e.2)

def showEvN (l : List (String × Nat)) : String := showEv (l.map fun e => (e.1, toString e.2))

def evOf : Prepare.Event String → Option (String × Nat)
  | .evicted k f => some (k, f)
  | .failRemoved k f => some (k, f)
  | .unprepRemoved k f => some (k, f)
  | _ => none

def newEv (s s' : Prepare.State String) : String :=
  showEvN ((s'.log.drop s.log.length).filterMap evOf)

def key (h ks st : String) : String := String.ofList (Prepare.keyFor h.toList ks.toList st.toList)

def unq (s : String) : String := if s == "-" then "" else s

/-- expected facts about conn.go prepareStatement (checked on the AST by the harness) -/
def astExpect : String :=
  "closure-adds=1 defer-close-first=true err-assign=4 removes=3 remove-by-key=true waits-done=true waits-ctx=true unprepared-evicts-then-retries=true"

def step (s : St) (ws : List String) : St × String :=
  match ws with
  | ["reset", "lru", cap] => ({ s with lru := LRU.new (cap.toInt?.getD 0) }, "ok")
  | ["reset", "plru", cap] => ({ s with prep := Prepare.init (cap.toInt?.getD 0) }, "ok")
  | ["add", k, v] =>
    let r := s.lru.add k v
    ({ s with lru := r.1 }, s!"ev={showEv r.2} len={r.1.len}")
  | ["get", k] =>
    let r := s.lru.get k
    ({ s with lru := r.2 }, match r.1 with | some v => "hit:" ++ v | none => "miss")
  | ["remove", k] =>
    let r := s.lru.remove k
    ({ s with lru := r.2.1 }, s!"{r.1} ev={showEv r.2.2} len={r.2.1.len}")
  | ["oldest"] =>
    let r := s.lru.removeOldest
    ({ s with lru := r.1 }, s!"ev={showEv r.2} len={r.1.len}")
  | ["drain"] =>
    ({ s with lru := { s.lru with items := [] } }, "ev=" ++ showEv s.lru.items.reverse)
  | ["lookup", h, ks, st] =>
    let k := key (unq h) (unq ks) (unq st)
    let hit := s.prep.cache.find k
    match Prepare.step s.prep (.lookup k) with
    | none => (s, "rejected")
    | some p' =>
      let f := match hit with | some f => f | none => s.prep.flights.length
      ({ s with prep := p' }, s!"{if hit.isSome then "hit" else "miss"} f={f} ev={newEv s.prep p'} len={p'.cache.len}")
  | ["complete", f, r, id] =>
    match f.toNat?, parseHex id with
    | some f, some idb =>
      match Prepare.step s.prep (.complete f (if r == "ok" then some idb else none)) with
      | none => (s, "rejected")
      | some p' => ({ s with prep := p' }, s!"done ev={newEv s.prep p'} len={p'.cache.len}")
    | _, _ => (s, "bad-op")
  | ["outcome", f] =>
    match f.toNat? with
    | some f => (s, match Prepare.outcome s.prep f with
        | some .inflight => "inflight" | some .failed => "failed"
        | some (.ok id) => "ok:" ++ toHex id | none => "none")
    | none => (s, "bad-op")
  | ["unprep", h, ks, st, id] =>
    match parseHex id with
    | some idb =>
      let k := key (unq h) (unq ks) (unq st)
      match Prepare.step s.prep (.unprepared k idb) with
      | none => (s, "rejected")
      | some p' =>
        if p'.crashed then (s, "crash:nil prepared statement")
        else ({ s with prep := p' }, s!"ev={newEv s.prep p'} len={p'.cache.len}")
    | none => (s, "bad-op")
  | ["pdrain"] =>
    let p := s.prep
    ({ s with prep := { p with cache := { p.cache with items := [] } } }, "ev=" ++ showEvN p.cache.items.reverse)
  | ["ast", "prepareStatement"] => (s, astExpect)
  | _ => (s, "bad-op")

end Driver.C14
