import Model.LRU
import Model.Prepare
import Driver.Util
namespace Driver.C14
open Util

/-- driver state: a plain LRU (string values) and the prepared-cache protocol state -/
structure St where
  lru  : LRU.Cache String String
  prep : Prepare.State String

def init : St := { lru := LRU.new 0, prep := Prepare.init 0 }

def showEv (l : List (String × String)) : String :=
  if l.isEmpty then "-" else ",".intercalate (l.map fun e => e.1 ++ ":" ++ e.2)

def showEvN (l : List (String × Nat)) : String := showEv (l.map fun e => (e.1, toString e.2))

def evOf : Prepare.Event String → Option (String × Nat)
  | .evicted k f => some (k, f)
  | .failRemoved k f => some (k, f)
  | .unprepRemoved k f => some (k, f)
  | _ => none

def newEv (s s' : Prepare.State String) : String :=
  showEvN ((s'.log.drop s.log.length).filterMap evOf)

/-- the cache key of the string-level ops (`lookup` / `unprep`): `Prepare.keyFor` on the UTF-8 bytes of the three
    Go strings, shown as text again (the key is two ASCII length prefixes followed by the three strings, so it
    is valid UTF-8 whenever they are) -/
def key (h ks st : String) : String :=
  String.fromUTF8! (ByteArray.mk (Prepare.keyFor h.toUTF8.toList ks.toUTF8.toList st.toUTF8.toList).toArray)

def unq (s : String) : String := if s == "-" then "" else s

/-- expected facts about conn.go prepareStatement (checked on the AST by the harness) -/
def astExpect : String :=
  "closure-adds=1 defer-close-first=true err-assign=4 removes=3 remove-by-key=true waits-done=true waits-ctx=true unprepared-evicts-then-retries=true spawn-follows-publish=true"


/-! ### session tier: observed histories of real Sessions, judged by the observable-level specification `Obs`

  trace <ev> <ev> ...        → accept | reject:<index>:<event>:<clause>
  traceU <ev> <ev> ...       the same for a Session whose statement cache cannot purge for capacity (MaxPreparedStmts 0
                             or at least the number of distinct keys): every R must be justified (`Obs.justified`)
  events (no blanks inside):
    S:<c>:<q|b>:<key>/<nvals>,...        call c starts (query / batch), entries (nvals = 1000 + n: n bound values one of
                                         which cannot be marshalled into any column type - matches no bind metadata)
    P:<f>:<key>:ok/<idhex>/<ncols>/<sighex>
                                         the server received PREPARE number f of <key> and answers PREPARED with that
                                         id, that many bind columns and bind column types whose value widths are <sig>
                                         (one byte per column; "-" = none)
    P:<f>:<key>:err[/<how>]              ... the PREPARE fails: the server answers with an ERROR frame (frame), with a frame
                                         the driver cannot decode (undecodable), with a well-formed answer of another
                                         kind (other-kind), or not at all, so that the driver's request timeout ends the
                                         flight's Conn.exec (silent) - the four failure paths of prepareStatement
    R:<key>:<f>                          flight f left the statement cache (OnEvicted)
    X:<c>:<idhex>/<sighex>,...:<ok|err|un/<idhex>/<sighex>>
                                         the server received call c's EXECUTE / BATCH; per prepared entry the id and the
                                         byte widths of the values as the driver encoded them (the bind metadata it used);
                                         un/...: UNPREPARED for that id (<sig>: the widths the server had issued with it)
                                         An id and its widths are ONE token for the specification (`PConn.token`): a frame
                                         whose values were encoded with the metadata of another PREPARE is a frame whose
                                         token no current PREPARE of that statement returned.
    T:<c>:<ok|xe|ce|pe/<f>|ctx>          call c returned: success, the server's execute error, value-count error,
                                         the failure of PREPARE f, its own context error (Canceled / DeadlineExceeded)
    K:<c>                                the context of call c is done from here on (logged BEFORE cancelling; for a
                                         deadline context: when it is armed)
    H:<c>                                watchdog: call c did not return, a goroutine is blocked inside gocql
    L:<c>                                call c keeps re-sending frames without the re-PREPAREs that UNPREPARED answers
                                         must cause (more frames than 20 + 3·(PREPAREs + scripted losses so far))
    C                                    panic inside gocql
  anything else is an event the specification does not have (rejected). -/

def parseEntry (w : String) : Option (String × Nat) :=
  match w.splitOn "/" with
  | [k, n] => n.toNat?.map fun n => (k, n)
  | _ => none

/-- `<idhex>/<sighex>` (or, older histories, `<idhex>` alone: no widths observed) ↦ the token -/
def parseTok (ws : List String) : Option PConn.Id :=
  match ws with
  | [id] => (parseHex id).map fun i => PConn.token i []
  | [id, sg] =>
    match parseHex id, parseHex sg with
    | some i, some g => some (PConn.token i g)
    | _, _ => none
  | _ => none

def parseXAns (ws : List String) : Option PConn.XAns :=
  match ws with
  | ["ok"] => some .ok
  | ["err"] => some .err
  | [u] => match u.splitOn "/" with
    | "un" :: t => (parseTok t).map .unprep
    | _ => none
  | _ => none

def parseEv (w : String) : Option (PConn.Ev String) :=
  match w.splitOn ":" with
  | ["S", c, kind, es] =>
    match c.toNat?, (es.splitOn ",").mapM parseEntry with
    | some c, some es => if kind == "q" || kind == "b" then some (.start c (kind == "b") es) else none
    | _, _ => none
  | ["P", f, k, r] =>
    match f.toNat?, r.splitOn "/" with
    | some f, ["err"] => some (.prep f k none)
    | some f, ["err", _] => some (.prep f k none)
    | some f, "ok" :: id :: n :: sg =>
      match parseTok (id :: sg), n.toNat? with
      | some t, some n => some (.prep f k (some (t, n)))
      | _, _ => none
    | _, _ => none
  | ["R", k, f] => f.toNat?.map fun f => .rm k f
  | "X" :: c :: ids :: a =>
    match c.toNat?, (ids.splitOn ",").mapM (fun w => parseTok (w.splitOn "/")), parseXAns a with
    | some c, some ids, some a => some (.exec c ids a)
    | _, _, _ => none
  | ["T", c, o] =>
    match c.toNat?, o.splitOn "/" with
    | some c, ["ok"] => some (.ret c .ok)
    | some c, ["xe"] => some (.ret c .execErr)
    | some c, ["ce"] => some (.ret c .countErr)
    | some c, ["ctx"] => some (.ret c .ctxErr)
    | some c, ["pe", f] => f.toNat?.map fun f => .ret c (.prepErr f)
    | _, _ => none
  | ["K", c] => c.toNat?.map .cancel
  | ["H", c] => c.toNat?.map .hang
  | ["L", c] => c.toNat?.map .hang
  | ["C"] => some .crash
  | _ => none

/-- which clause of the specification rejects event `e` in state `o` (diagnostics only) -/
def why (o : Obs.OState String) : PConn.Ev String → String
  | .start c _ es =>
    if c ≠ o.callers.length then "call-number-out-of-order" else if es = [] then "no-entries" else "?"
  | .prep f k _ =>
    if o.credit k = 0 then "second-PREPARE-while-the-statement-is-cached(single-flight)"
    else if !(o.callers.any fun cl => (cl.pc.live || cl.pc.gaveUp) && Obs.hasKey cl.entries k) then "PREPARE-without-an-execution-of-that-statement"
    else match o.flights f with
      | some fl => if fl.key ≠ k then "flight-of-another-key" else "PREPARE-number-reused"
      | none => "?"
  | .rm k f =>
    if o.strict && !Obs.justified o k f then
      "entry-removed-although-its-PREPARE-neither-failed-nor-was-answered-UNPREPARED(cache-cannot-purge-for-capacity)"
    else match o.flights f with
    | some fl => if fl.key ≠ k then "removed-under-another-key" else "flight-removed-twice"
    | none => "?"
  | .exec c ids _ =>
    match o.callers[c]? with
    | none => "unknown-call"
    | some cl =>
      if !cl.pc.live && cl.pc != .abandoned true then "frame-from-a-call-that-is-not-running"
      else if ids.length ≠ cl.entries.length then "number-of-ids"
      else "id-not-returned-by-a-current-PREPARE-of-that-statement-on-that-host-with-that-many-columns(id-belongs/value-count)"
  | .ret c out =>
    match o.callers[c]? with
    | none => "unknown-call"
    | some cl =>
      match out with
      | .ok => "ok-without-an-ok-answer"
      | .execErr => "execute-error-without-such-an-answer"
      | .countErr => "value-count-error-without-a-mismatching-PREPARE"
      | .ctxErr =>
        if !cl.pc.running then "context-error-from-a-call-that-is-not-running"
        else "context-error-returned-to-a-call-whose-context-is-not-done"
      | .prepErr f =>
        if !cl.pc.live then "prepare-error-from-a-call-that-is-not-running"
        else if cl.banned f then "failure-served-from-cache(reported-to-a-call-that-began-after-it-was-known)"
        else match o.flights f with
          | none => "failure-of-an-unknown-PREPARE"
          | some fl =>
            if fl.ans ≠ some none then "PREPARE-did-not-fail"
            else if !fl.removed then "failure-reported-while-still-cached(failed-flight-published)"
            else "failure-of-another-statement"
  | .crash => "panic-inside-gocql"
  | .hang _ => "execution-never-returned(every-frame-answered;goroutine-blocked-inside-gocql)"
  | .cancel _ => "context-of-an-unknown-call"

def judge (strict : Bool) (ws : List String) : String :=
  match ws.mapM parseEv with
  | none =>
    match ws.find? (fun w => (parseEv w).isNone) with
    | some w => "reject:event-outside-the-specification:" ++ w
    | none => "reject:unparsable"
  | some evs =>
    match Obs.firstReject (Obs.initB strict) evs 0 with
    | none => "accept"
    | some (i, o) =>
      let w := ws.getD i "?"
      if w.startsWith "L:" then s!"reject:{i}:{w}:execution-does-not-terminate(frames-re-sent-without-re-PREPARE)"
      else s!"reject:{i}:{w}:{why o (evs.getD i .crash)}"

/-! ### sequential executions: exact prediction by the connection-level machine with the real LRU (`PLru`)

  seq cap=<n> ids=<stable|fresh> cols=<n0,n1,..> pf=<o|e|g|k>* xf=<o|e|f|u>* <call> <call> ...
      call = <q|b>:<key>/<nvals>,...          key = h<i>.s<j>
  One caller at a time. The driver's hidden actions are then determined (lookup, the flight's PREPARE, its
  completion, observe, finish): a schedule of `PLru` (proved to refine `PConn` and to keep the cache within its
  capacity: C14_conn_lru_refines, C14_conn_lru_bound), whose LRU decides which entry a full cache purges, and the
  scripted server is replayed (pf: answer to the i-th PREPARE - PREPARED / ERROR frame / undecodable frame / answer
  of another kind; the ids are tokens `PConn.token raw-id (bindSig ..)`: id plus value widths; xf: fate of the i-th EXECUTE/BATCH that carries
  only known ids: ok / error / forget everything on that host and answer UNPREPARED / UNPREPARED with a
  foreign id; a frame with an id the host does not know is answered UNPREPARED(that id)).
  Answer: the observable trace, in the words of `trace`. -/

def showTok (t : PConn.Id) : String :=
  let p := PConn.untoken t
  toHex p.1 ++ "/" ++ toHex p.2

def showXAns : PConn.XAns → String
  | .ok => "ok" | .err => "err" | .unprep id => "un/" ++ showTok id

def showEvW : PConn.Ev String → String
  | .start c b es => s!"S:{c}:{if b then "b" else "q"}:" ++ ",".intercalate (es.map fun e => s!"{e.1}/{e.2}")
  | .prep f k (some (id, n)) => s!"P:{f}:{k}:ok/{toHex (PConn.untoken id).1}/{n}/{toHex (PConn.untoken id).2}"
  | .prep f k none => s!"P:{f}:{k}:err"
  | .rm k f => s!"R:{k}:{f}"
  | .exec c ids a => s!"X:{c}:" ++ ",".intercalate (ids.map showTok) ++ ":" ++ showXAns a
  | .ret c .ok => s!"T:{c}:ok"
  | .ret c .execErr => s!"T:{c}:xe"
  | .ret c .countErr => s!"T:{c}:ce"
  | .ret c (.prepErr f) => s!"T:{c}:pe/{f}"
  | .ret c .ctxErr => s!"T:{c}:ctx"
  | .cancel c => s!"K:{c}"
  | .crash => "C"
  | .hang c => s!"H:{c}"

def ascii (s : String) : List UInt8 := s.toList.map fun ch => UInt8.ofNat ch.toNat

def pad (n width : Nat) : String :=
  let d := toString n
  String.ofList (List.replicate (width - d.length) '0') ++ d

/-- "h<i>.s<j>" ↦ (i, j) -/
def keyParts (k : String) : Nat × Nat :=
  match k.splitOn "." with
  | [h, st] => (((h.drop 1).toNat?).getD 0, ((st.drop 1).toNat?).getD 0)
  | _ => (0, 0)

/-- pf letters that make a PREPARE fail: ERROR frame / undecodable answer / answer of another kind -/
def isFailLetter (ch : Char) : Bool := ch == 'e' || ch == 'g' || ch == 'k'

def failWord : Char → String
  | 'g' => "undecodable" | 'k' => "other-kind" | 's' => "silent" | _ => "frame"

/-- the scripted server's bind metadata for statement number st (PREPARE number `serial`, 0 when ids are stable):
    column i has the type whose values are 4, 8, 2, 1 bytes wide (int, bigint, smallint, tinyint), rotating -/
def bindSig (st serial nc : Nat) : List UInt8 :=
  (List.range nc).map fun i => [4, 8, 2, 1].getD ((st + serial + i) % 4) 4

structure Seq where
  s     : PLru.State String           -- the connection-level machine with the real LRU (Model/Prepare.lean PLru)
  reg   : List (Nat × List UInt8)     -- (host, id) the server knows
  pf    : List Char
  xf    : List Char
  stable : Bool
  cols  : List Nat
  nprep : Nat
  out   : List (PConn.Ev String)
  bad   : Option String
  fk    : List (Nat × Char) := []     -- how the failed PREPAREs failed (pf letter), for printing only

def Seq.act (q : Seq) (a : PLru.Action String) : Seq :=
  if q.bad.isSome then q else
  match PLru.step q.s a with
  | none => { q with bad := some "action-not-enabled" }
  | some (s', evs) => { q with s := s', out := q.out ++ evs }

/-- the scripted server's answer to a frame carrying `ids` on host h; returns the new registry and the rest of xf -/
def serverX (q : Seq) (h : Nat) (ids : List (List UInt8)) : PConn.XAns × List (Nat × List UInt8) × List Char :=
  match ids.find? (fun id => !(q.reg.any fun r => r.1 == h && r.2 == id)) with
  | some id => (.unprep id, q.reg, q.xf)
  | none =>
    match q.xf with
    | 'e' :: r => (.err, q.reg, r)
    | 'f' :: r => (.unprep (ids.headD []), q.reg.filter (fun x => x.1 != h), r)
    | 'u' :: r => (.unprep (PConn.token (ascii "other-id") []), q.reg, r)
    | _ :: r => (.ok, q.reg, r)
    | [] => (.ok, q.reg, [])

/-- one execution, start to return (fuel bounds the UNPREPARED restarts) -/
def Seq.callLoop (c : Nat) : Nat → Seq → Seq
  | 0, q => { q with bad := some "out-of-fuel" }
  | fuel + 1, q =>
    if q.bad.isSome then q else
    match q.s.p.callers[c]? with
    | none => { q with bad := some "no-caller" }
    | some cl =>
      match cl.pc with
      | .returned => q
      | .abandoned => q
      | .lagging => q
      | .won _ => Seq.callLoop c fuel (q.act (.spawn c))
      | .start =>
        match cl.entries[cl.got.length]? with
        | none => { q with bad := some "no-entry" }
        | some e =>
          -- execIfMissing (PLru.stepLookup): Get (moves to front) or Add (may purge the oldest)
          match q.s.lru.find e.1 with
          | some _ => Seq.callLoop c fuel (q.act (.lookup c))
          | none =>
            let f := q.s.p.flights.length
            let q2 := q.act (.lookup c)
            -- the flight's goroutine: PREPARE, answer, completion
            let (hh, st) := keyParts e.1
            let serial := q2.nprep
            let letter := q2.pf.headD 'o'
            let ans : PConn.PAns × List (Nat × List UInt8) :=
              if isFailLetter letter then (none, q2.reg)
              else
                let raw := if q2.stable then ascii ("S" ++ pad st 2 ++ "h" ++ toString hh) else ascii ("s" ++ pad st 2 ++ "n" ++ pad serial 4)
                let nc := q2.cols.getD st 0
                let id := PConn.token raw (bindSig st (if q2.stable then 0 else serial) nc)
                (some (id, nc), (hh, id) :: q2.reg)
            let q3 := { q2 with pf := q2.pf.drop 1, reg := ans.2, nprep := serial + 1,
                                fk := if isFailLetter letter then (f, letter) :: q2.fk else q2.fk }.act (.spawn c) |>.act (.srvPrepare f ans.1)
            Seq.callLoop c fuel (q3.act (.complete f))
      | .waiting f =>
        let (hh, _) := keyParts ((cl.entries.headD ("", 0)).1)
        let ids := (cl.got ++ [f]).map (PConn.idOf q.s.p)
        let sx := serverX q hh ids
        let q1 := q.act (.observe c sx.1)
        -- the server acted only if the frame was sent
        let sent := (q1.out.drop q.out.length).any fun | .exec _ _ _ => true | _ => false
        Seq.callLoop c fuel (if sent then { q1 with reg := sx.2.1, xf := sx.2.2 } else q1)
      | .answered _ =>
        -- PLru.stepFinish: evictPreparedID looks the key up (recency!) before deciding
        Seq.callLoop c fuel (q.act (.finish c))

def parseCall (w : String) : Option (Bool × List (String × Nat)) :=
  match w.splitOn ":" with
  | [kind, es] => ((es.splitOn ",").mapM parseEntry).map fun es => (kind == "b", es)
  | _ => none

def kvs (ws : List String) (k : String) : String :=
  (ws.findSome? fun w => match w.splitOn "=" with
    | [a, b] => if a == k then some b else none
    | _ => none).getD ""

def runSeq (ws : List String) : String :=
  let calls := (ws.filter fun w => !w.contains '=').mapM parseCall
  match calls with
  | none => "bad-op"
  | some calls =>
    let q0 : Seq := { s := PLru.init ((kvs ws "cap").toInt?.getD 0), reg := [], pf := (kvs ws "pf").toList,
                      xf := (kvs ws "xf").toList, stable := kvs ws "ids" == "stable",
                      cols := ((kvs ws "cols").splitOn ",").map fun x => x.toNat?.getD 0, nprep := 0, out := [], bad := none }
    let q := calls.foldl (fun (q : Seq) cl =>
      let c := q.s.p.callers.length
      Seq.callLoop c 400 (q.act (.call cl.1 cl.2))) q0
    match q.bad with
    | some b => "stuck:" ++ b
    | none => " ".intercalate (q.out.map fun e => match e with
        | .prep f _ none => showEvW e ++ "/" ++ failWord (((q.fk.find? fun x => x.1 == f).map (·.2)).getD 'e')
        | _ => showEvW e)

def hexKey (h ks st : List UInt8) : String := toHex (Prepare.keyFor h ks st)

def parseTriple (h ks st : String) : Option Prepare.Triple :=
  match parseHex h, parseHex ks, parseHex st with
  | some h, some ks, some st => some { host := h, ks := ks, text := st }
  | _, _, _ => none

/-- execIfMissing with the publishing closure, on cache key k -/
def doLookup (s : St) (k : String) : St × String :=
  let hit := s.prep.cache.find k
  match Prepare.step s.prep (.lookup k) with
  | none => (s, "rejected")
  | some p' =>
    let f := match hit with | some f => f | none => s.prep.flights.length
    ({ s with prep := p' }, s!"{if hit.isSome then "hit" else "miss"} f={f} ev={newEv s.prep p'} len={p'.cache.len}")

/-- evictPreparedID(k, id) -/
def doUnprep (s : St) (k : String) (idb : List UInt8) : St × String :=
  match Prepare.step s.prep (.unprepared k idb) with
  | none => (s, "rejected")
  | some p' =>
    if p'.crashed then (s, "crash:nil prepared statement")
    else ({ s with prep := p' }, s!"ev={newEv s.prep p'} len={p'.cache.len}")

/-- the winner's goroutine finishes flight f -/
def doComplete (s : St) (f r id : String) : St × String :=
  match f.toNat?, parseHex id with
  | some f, some idb =>
    match Prepare.step s.prep (.complete f (if r == "ok" then some idb else none)) with
    | none => (s, "rejected")
    | some p' => ({ s with prep := p' }, s!"done ev={newEv s.prep p'} len={p'.cache.len}")
  | _, _ => (s, "bad-op")

def step (s : St) (ws : List String) : St × String :=
  match ws with
  | ["reset", "lru", cap] => ({ s with lru := LRU.new (cap.toInt?.getD 0) }, "ok")
  | ["reset", "plru", cap] => ({ s with prep := Prepare.init (cap.toInt?.getD 0) }, "ok")
  | ["add", k, v] =>
    let r := s.lru.add k v
    ({ s with lru := r.1 }, s!"ev={showEv r.2} len={r.1.len}")
  | ["get", k] =>
    let r := s.lru.get k
    ({ s with lru := r.2 }, match r.1 with | some v => "hit:" ++ v | none => "miss")
  | ["remove", k] =>
    let r := s.lru.remove k
    ({ s with lru := r.2.1 }, s!"{r.1} ev={showEv r.2.2} len={r.2.1.len}")
  | ["oldest"] =>
    let r := s.lru.removeOldest
    ({ s with lru := r.1 }, s!"ev={showEv r.2} len={r.1.len}")
  | ["drain"] =>
    ({ s with lru := { s.lru with items := [] } }, "ev=" ++ showEv s.lru.items.reverse)
  | ["lookup", h, ks, st] => doLookup s (key (unq h) (unq ks) (unq st))
  | ["lookupx", h, ks, st] =>
    match parseHex h, parseHex ks, parseHex st with
    | some h, some ks, some st => doLookup s (hexKey h ks st)
    | _, _, _ => (s, "bad-op")
  | ["complete", f, r, id] => doComplete s f r id
  | ["completex", f, r, id] => doComplete s f r id
  | ["outcome", f] =>
    match f.toNat? with
    | some f => (s, match Prepare.outcome s.prep f with
        | some .inflight => "inflight" | some .failed => "failed"
        | some (.ok id) => "ok:" ++ toHex id | none => "none")
    | none => (s, "bad-op")
  | ["unprep", h, ks, st, id] =>
    match parseHex id with
    | some idb => doUnprep s (key (unq h) (unq ks) (unq st)) idb
    | none => (s, "bad-op")
  | ["unprepx", h, ks, st, id] =>
    match parseHex h, parseHex ks, parseHex st, parseHex id with
    | some h, some ks, some st, some idb => doUnprep s (hexKey h ks st) idb
    | _, _, _, _ => (s, "bad-op")
  | ["keyfor", h, ks, st] =>
    -- the cache key the code computes, byte for byte
    match parseHex h, parseHex ks, parseHex st with
    | some h, some ks, some st => (s, hexKey h ks st)
    | _, _, _ => (s, "bad-op")
  | ["keypair", h1, k1, s1, h2, k2, s2] =>
    -- SPECIFICATION: two triples share a cache entry iff they are the same triple. Proved equal to the model's
    -- answer (`sameKey`: the keys `keyFor` computes are equal) for EVERY pair (C14_keypair_spec) — no excluded class
    match parseTriple h1 k1 s1, parseTriple h2 k2 s2 with
    | some t1, some t2 => (s, if Prepare.sameStmt t1 t2 then "same" else "differ")
    | _, _ => (s, "bad-op")
  | ["pdrain"] =>
    let p := s.prep
    ({ s with prep := { p with cache := { p.cache with items := [] } } }, "ev=" ++ showEvN p.cache.items.reverse)
  | ["ast", "prepareStatement"] => (s, astExpect)
  | "trace" :: evs => (s, judge false evs)
  | "traceU" :: evs => (s, judge true evs)
  | "seq" :: rest => (s, runSeq rest)
  | ["cachelen", cp, mx] =>
    -- C14_lru_refines_map: len ≤ cap for cap > 0 (0 = unbounded)
    match (cp.splitOn "=").getD 1 "" |>.toInt?, (mx.splitOn "=").getD 1 "" |>.toNat? with
    | some c, some m => (s, if c ≤ 0 ∨ (m : Int) ≤ c then "accept" else s!"reject:cache-holds-{m}-of-{c}")
    | _, _ => (s, "bad-op")
  | _ => (s, "bad-op")

end Driver.C14
