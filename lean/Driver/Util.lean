/- shared helpers for the line-protocol driver (core only) -/
namespace Util

def hexVal (c : Char) : Option Nat :=
  if '0' ≤ c ∧ c ≤ '9' then some (c.toNat - '0'.toNat)
  else if 'a' ≤ c ∧ c ≤ 'f' then some (c.toNat - 'a'.toNat + 10)
  else if 'A' ≤ c ∧ c ≤ 'F' then some (c.toNat - 'A'.toNat + 10)
  else none

def parseHexChars : List Char → Option (List UInt8)
  | [] => some []
  | [_] => none
  | a :: b :: r => do
    let x ← hexVal a
    let y ← hexVal b
    let rest ← parseHexChars r
    pure (UInt8.ofNat (x*16+y) :: rest)

/-- "-" is the empty byte string -/
def parseHex (s : String) : Option (List UInt8) :=
  if s == "-" then some [] else parseHexChars s.toList

def hexDigit (n : Nat) : Char :=
  if n < 10 then Char.ofNat ('0'.toNat + n) else Char.ofNat ('a'.toNat + n - 10)

def toHex (bs : List UInt8) : String :=
  if bs.isEmpty then "-" else
  String.ofList (bs.foldr (fun b acc => hexDigit (b.toNat / 16) :: hexDigit (b.toNat % 16) :: acc) [])

def splitWords (s : String) : List String :=
  (s.splitOn " ").filter (· ≠ "")

/-- generic line loop: one op per line, one answer per line -/
partial def loop {σ : Type} (step : σ → List String → σ × String) (h : IO.FS.Stream) (out : IO.FS.Stream) (s : σ) : IO Unit := do
  let line ← h.getLine
  if line.isEmpty then return ()
  let ws := splitWords (line.trimAscii.toString)
  let (s', o) := step s ws
  out.putStrLn o
  loop step h out s'

end Util
