import Model.Executor
import Driver.Util
namespace Driver.C13
open Util Executor

def init : Unit := ()

def rtOfChar : Char → RT
  | 'r' => .retry | 't' => .rethrow | 'i' => .ignore | 'n' => .nextHost | _ => .unknown

/-- policy syntax: none | simple:N | exp:N | down:L | custom:LIMIT:<10 chars, retry type per error kind 0..9> -/
def parsePolicy (s : String) : Option (Option Policy) :=
  match s.splitOn ":" with
  | ["none"] => some none
  | ["simple", n] => n.toNat?.map fun k => some (simplePolicy k)
  | ["exp", n] => n.toNat?.map fun k => some (exponentialPolicy k)
  | ["down", n] => n.toNat?.map fun k => some (downgradingPolicy k)
  | ["custom", lim, tbl] => lim.toNat?.map fun k =>
      some { attempt := fun n => decide (n ≤ k), rtype := fun e => rtOfChar (tbl.toList.getD e 'u') }
  | _ => none

def parseHost (s : String) : Option Host :=
  match s.splitOn ":" with
  | [a, b, c] => do
    let id ← a.toNat?
    pure ⟨id, b == "1", c == "1"⟩
  | _ => none

/-- outcomes: comma list of o | l | e<k> ; attempts beyond the list get `o` -/
def parseRes (s : String) : Option Res :=
  if s == "o" then some .ok else if s == "l" then some .logical
  else if s.startsWith "e" then (s.drop 1).toNat?.map Res.err else none

def showFinal : Final → String
  | .last .ok => "ok"
  | .last .logical => "logical"
  | .last (.err k) => s!"err{k}"
  | .lastErr k => s!"err{k}"
  | .noConnections => "noconn"
  | .unknownRetryType => "unknownrt"
  | .outOfFuel => "out-of-fuel"

def step (_ : Unit) (ws : List String) : Unit × String :=
  ((), match ws with
  | ["do", pol, hosts, outs] =>
      match parsePolicy pol, (if hosts == "-" then some [] else (hosts.splitOn ",").mapM parseHost),
            (if outs == "-" then some [] else (outs.splitOn ",").mapM parseRes) with
      | some p, some hs, some os =>
        let out := doQuery p (fun n => os.getD n .ok) 64 hs 0
        "attempts=" ++ (if out.attempts.isEmpty then "-" else ",".intercalate (out.attempts.map toString)) ++
          " final=" ++ showFinal out.final
      | _, _, _ => "bad-op"
  | ["spec", idem, a, nh, nreq, first, result] =>
      match a.toNat?, nh.toNat?, nreq.toNat? with
      | some sa, some hosts, some n =>
        if result == "hang" then "reject:no-result"
        else if n > maxExecutions (idem == "1") sa then s!"reject:too-many-executions:{n}"
        else if n > hosts then s!"reject:more-requests-than-hosts:{n}"
        else if result == "noconn" then
          -- an execution that found the shared host iterator exhausted may complete first
          if maxExecutions (idem == "1") sa > hosts then "accept" else "reject:noconn-with-hosts-left"
        else if n == 0 then "reject:never-sent"
        else if first != result then s!"reject:not-first-result:{first}:{result}"
        else "accept"
      | _, _, _ => "bad-op"
  | ["kf-d10"] =>
      -- known finding KF-C13-1: the attempts do not depend on idempotence
      let out := doQuery (some (simplePolicy 1)) (fun _ => .err 9) 10 [⟨1, true, true⟩, ⟨2, true, true⟩] 0
      "attempts=" ++ ",".intercalate (out.attempts.map toString)
  | _ => "bad-op")

end Driver.C13
