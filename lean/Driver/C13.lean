import Model.Executor
import Model.ExecutorConc
import Driver.Util
namespace Driver.C13
open Util Executor

def init : Unit := ()

def rtOfChar : Char → RT
  | 'r' => .retry | 't' => .rethrow | 'i' => .ignore | 'n' => .nextHost | _ => .unknown

/-- policy syntax: none | simple:N | exp:N | down:<levels, '.'-separated consistency codes, or '-'> |
    custom:LIMIT:<retry type per error kind 0..> -/
def parsePolicy (s : String) : Option (Option Policy) :=
  match s.splitOn ":" with
  | ["none"] => some none
  | ["simple", n] => n.toNat?.map fun k => some (simplePolicy k)
  | ["exp", n] => n.toNat?.map fun k => some (exponentialPolicy k)
  | ["down", ls] =>
      if ls == "-" then some (some (downgradingPolicyL []))
      else ((ls.splitOn ".").mapM String.toNat?).map fun l => some (downgradingPolicyL l)
  | ["custom", lim, tbl] => lim.toNat?.map fun k =>
      some { attempt := fun n => decide (n ≤ k), rtype := fun e => rtOfChar (tbl.toList.getD e 'u') }
  | _ => none

def parseHost (s : String) : Option Host :=
  match s.splitOn ":" with
  | [a, b, c] => do
    let id ← a.toNat?
    pure ⟨id, b == "1", c == "1"⟩
  | _ => none

/-- outcomes: comma list of o | l | e<k>[variant letter] ; requests beyond the list get `o` -/
def parseRes (s : String) : Option Res :=
  if s == "o" then some .ok else if s == "l" then some .logical
  else if s.startsWith "e" then
    (String.ofList ((s.toList.drop 1).takeWhile Char.isDigit)).toNat?.map Res.err
  else none

def parseKind : String → Option Kind
  | "q" => some .query | "bl" => some .batchLogged | "bu" => some .batchUnlogged | "bc" => some .batchCounter
  | _ => none

def showRes : Res → String
  | .ok => "ok" | .logical => "ctx" | .err k => s!"e{k}"

/-- which request's error the caller holds: the scripted servers put the request number into the error
    message; a driver-made error (no answer: kind 8, connection closed: kind 10) carries none -/
def showErr (kind idx : Nat) : String :=
  if kind == 8 || kind == 10 then s!"err{kind}#?" else s!"err{kind}#{idx}"

/-- `lastIdx` = number of the last request sent by this execution -/
def showFinal (ctxErr : String) (lastIdx : Nat) : Final → String
  | .last .ok => "ok"
  | .last .logical => ctxErr
  | .last (.err k) => showErr k lastIdx
  | .lastErr k j => showErr k j
  | .noConnections => "noconn"
  | .unknownRetryType => "unknownrt"
  | .outOfFuel => "out-of-fuel"

def joinOr (l : List String) : String := if l.isEmpty then "-" else ",".intercalate l

/-- observer records `idx:host:res:attempts-on-that-host-so-far`; `prev` = hosts of the earlier attempts of
    the statement (the per-host metrics live as long as the statement) -/
def obsRecords : List Nat → List Att → List String
  | _, [] => []
  | prev, a :: as =>
      s!"{a.idx}:{a.host}:{showRes a.res}:{(prev.filter (· == a.host)).length + 1}" :: obsRecords (a.host :: prev) as

structure Scn where
  kx : Option Nat := none       -- the statement's context ends in Mark after the attempt of this request
  req : Req
  pol : Option Policy
  ctxErr : String
  ids : List Nat                -- what the host selection policy offers, in order
  us : Nat → Nat → Bool         -- usability of a host when k requests have been sent
  outcome : Nat → Res

/-- environment script token `<when><act><host>`: when = `i` (before the first execution) or the number of the
    request after which it happens; act = d (marked down) u (marked up) r (pool removed) c (pool closed)
    k (connections lost, host unreachable) a (pool re-created and connected, host up) -/
structure EnvTok where
  init : Bool
  after : Nat
  act : Char
  host : Nat

def parseEnvTok (s : String) : Option EnvTok :=
  let cs := s.toList
  let (isInit, rest) := match cs with
    | 'i' :: r => (true, r)
    | _ => (false, cs)
  let ds := rest.takeWhile Char.isDigit
  let rest := rest.dropWhile Char.isDigit
  if !isInit && ds.isEmpty then none
  else if isInit && !ds.isEmpty then none
  else match rest with
    | a :: hs =>
      if hs.isEmpty || !hs.all Char.isDigit then none
      else match (String.ofList hs).toNat? with
        | some h => some ⟨isInit, (String.ofList ds).toNat?.getD 0, a, h⟩
        | none => none
    | [] => none

def actOf : Char → Option EnvAct
  | 'd' => some .markDown | 'u' => some .markUp | 'r' => some .poolGone | 'c' => some .poolGone
  | 'k' => some .poolGone | 'a' => some .poolBack | _ => none

/-- an action counts only on a host the session knows (`id:1:…`), and `a` only on a host whose node accepts
    connections (`id:1:1`); the harness ignores the others in the same way -/
def envAct (hostSpecs : List String) (t : EnvTok) : Option (EnvAct × Nat) :=
  match actOf t.act with
  | none => none
  | some a =>
    let known := hostSpecs.any fun sp => match sp.splitOn ":" with
      | [i, u, c] => i.toNat? == some t.host && u == "1" && (t.act != 'a' || c == "1")
      | _ => false
    if known then some (a, t.host) else none

/-- one execution rendered the way the harness renders what it observed -/
def showRun (s : Scn) (r : Run) (k0 : Nat) (prevHosts : List Nat) (anySent : Bool) : String :=
  let lat := if r.out.cnt == 0 then "0" else if anySent || !r.sent.isEmpty then "+" else "?"
  "sent=" ++ joinOr (r.sent.map fun a => s!"{a.host}@{a.cons}") ++
  s!" n={r.out.cnt} lat={lat} cons={r.out.cons} obs=" ++
  (if s.req.observed then joinOr (obsRecords prevHosts r.out.attempts) else "off") ++
  " final=" ++ showFinal s.ctxErr (k0 + r.sent.length - 1) r.out.final

def runScn (s : Scn) (c0 : Nat) (pre : Bool) (reps : Nat) : String :=
  let r1 := executeX s.req s.pol s.outcome s.us 64 s.ids 0 0 c0 pre s.kx
  let s1 := showRun s r1 0 [] false
  if reps < 2 then s1
  else
    let r2 := executeX s.req s.pol s.outcome s.us 64 s.ids r1.sent.length r1.out.cnt r1.out.cons r1.ctxDone s.kx
    s1 ++ " | " ++ showRun s r2 r1.sent.length (r1.out.attempts.map (·.host)).reverse (!r1.sent.isEmpty)

def decoyPolicy : Policy := simplePolicy 7

/-- idempotence flags from the op line: a query's flag, or one flag per batch entry in order ("-" = no entries) -/
def parseFlags (s : String) : Option (List Bool) :=
  if s == "-" then some []
  -- a query in a session with DefaultIdempotence = true: no statement-level setting / Idempotent(false)
  else if s == "D" then some [queryIdempotent true none]
  else if s == "F" then some [queryIdempotent true (some false)]
  else if s == "1" then some [queryIdempotent false (some true)]
  else if s == "0" then some [queryIdempotent false none]
  else s.toList.mapM fun c => if c == '1' then some true else if c == '0' then some false else none

/-- `IsIdempotent()` of the statement: the query's flag; a batch: every entry's flag (`batchIdempotent`) -/
def stmtIdempotent (kind idem : String) : Option Bool :=
  match parseFlags idem with
  | none => none
  | some fl => if kind == "q" && fl.length != 1 then none else some (batchIdempotent fl)

/-- speculative policy of an `ex` scenario: `-` none, `K` = K attempts with a delay that never elapses, `Kf` = K
    attempts with a delay that elapses at once -/
def parseSp (s : String) : Option (Nat × Bool) :=
  if s == "-" then some (0, false)
  else if s.endsWith "f" then (s.dropRight 1).toNat?.map fun k => (k, true)
  else s.toNat?.map fun k => (k, false)

def exOpCore (kind ctor pol polAt obs ctx cons reps hosts outs env : String) : String :=
  let hostSpecs := if hosts == "-" then [] else hosts.splitOn ","
  match parseKind kind, parsePolicy pol, cons.toNat?, reps.toNat?, hostSpecs.mapM parseHost,
        (if outs == "-" then some [] else (outs.splitOn ",").mapM parseRes),
        (if env == "-" then some [] else (env.splitOn ",").mapM parseEnvTok) with
  | some k, some p, some c0, some rp, some hs, some os, some ev =>
    let fromSession := ctor == "s"
    -- retry policy: session level (`s`), statement level (`q`), or statement level over a session-level decoy (`o`)
    let sessPol : Option Policy := if polAt == "s" then p else if polAt == "o" then some decoyPolicy else none
    let stmtPol : Option (Option Policy) := if polAt == "s" then none else some p
    let sessObs : Option Unit := if obs == "s" || obs == "o" then some () else none
    let stmtObs : Option (Option Unit) := if obs == "q" || obs == "o" then some (some ()) else none
    let w0 := applyActs ((ev.filter (·.init)).filterMap (envAct hostSpecs)) hs
    let script : Nat → List (EnvAct × Nat) := fun j => (ev.filter fun t => !t.init && t.after == j).filterMap (envAct hostSpecs)
    -- `<k>x<any>`: the statement's context (if it has one that can end) ends in Mark after the attempt of request k
    let xs := (ev.filter fun t => !t.init && t.act == 'x').map (·.after)
    let kx : Option Nat := if ctx == "-" then none else xs.foldl (fun (m : Option Nat) v => match m with
      | none => some v
      | some w => some (min v w)) none
    let scn : Scn := {
      kx := kx,
      req := ⟨k, (effective fromSession sessObs stmtObs).isSome⟩,
      pol := effective fromSession sessPol stmtPol,
      ctxErr := if ctx == "d" || ctx == "pd" then "deadline" else "canceled",
      ids := hs.map (·.id), us := usOf w0 script, outcome := fun n => os.getD n .ok }
    runScn scn c0 (ctx == "p" || ctx == "pd") rp
  | _, _, _, _, _, _, _ => "bad-op"

/-- `executeQuery`: only ONE execution runs unless the statement is idempotent and the policy allows more; with a
    delay that never elapses only the main execution of a speculated statement runs, so the trace is that of the
    plain retry loop. Concurrent executions with a delay that does elapse are not predicted here (their traces are
    checked by the `spec` / `specr` monitors). -/
def exOp (kind ctor pol polAt obs idem sp ctx cons reps hosts outs env : String) : String :=
  match stmtIdempotent kind idem, parseSp sp with
  | some idm, some (spK, fast) =>
    if fast && maxExecutions idm spK > 1 then "unpredicted:speculated"
    else exOpCore kind ctor pol polAt obs ctx cons reps hosts outs env
  | _, _ => "bad-op"

/-- the `lim` of a policy of the form `Attempts() ≤ lim` (every policy the harness uses is of that form) -/
def limitOf (s : String) : Option Nat :=
  match s.splitOn ":" with
  | ["none"] => some 0
  | ["simple", n] => n.toNat?
  | ["exp", n] => n.toNat?
  | ["down", ls] => if ls == "-" then some 0 else some (ls.splitOn ".").length
  | ["custom", lim, _] => lim.toNat?
  | _ => none

/-- policies that never answer `Retry` (same host): every request takes a fresh host from the shared iterator -/
def nextHostOnly (s : String) : Bool := s == "none" || s.startsWith "simple:" || s.startsWith "exp:"

/-! ### `specc`: speculative executions stepped one micro-step at a time, with cancellation at any point — the op
    line is the observed history; it is replayed through `ExecutorConc.stepC` and every observation is compared with
    what the machine does (theorems C13_cancel_stops_requests, C13_caller_cancel_stops_requests,
    C13_first_result_wins, C13_result_iff_completed, C13_cancel_budget) -/

structure CReplay where
  k : ExecutorConc.MK
  hostOf : List Nat            -- host (1-based position in the iterator's order) of each execution's last attempt
  gotR : Bool := false
  bad : Option String := none

def showCRes : ExecutorConc.CRes → String
  | .res .ok => "ok" | .res .logical => "l" | .res (.err k) => s!"e{k}" | .noConn => "noconn" | .unknownRT => "unknownrt"

def parseCRes (s : String) : Option Res :=
  if s == "ok" then some .ok else if s == "l" then some .logical else parseRes s

/-- position (1-based) in the offered order of the j-th USABLE host (j ≥ 1); the unusable ones — a SelectedHost
    without HostInfo (`0`), a host whose pool has no connection (`c`) — are skipped by the loop head of `do`
    without consuming anything -/
def realHost (mask : List Char) (j : Nat) : Nat :=
  let rec go : List Char → Nat → Nat → Nat
    | [], _, pos => pos
    | ch :: rest, need, pos =>
        if ch == '1' then (if need ≤ 1 then pos + 1 else go rest (need - 1) (pos + 1)) else go rest need (pos + 1)
  go mask j 0

/-- what the harness sees when execution `i` takes the step that leads from `k` to `k'`: a request arriving at a
    host with a consistency level, an attempt that reached no server, or the execution ending -/
def stepSeen (mask : List Char) (k k' : ExecutorConc.MK) (i : Nat) (hostOf : List Nat) : String × Nat :=
  let c := k.c
  let c' := k'.c
  let nhosts := (mask.filter (· == '1')).length
  match c'.m.exs[i]? with
  | some .inflight =>
      let h := if c'.m.left < c.m.left then realHost mask (nhosts - c.m.left + 1) else hostOf.getD i 0
      (s!"s{h}@{k'.reqCons.headD 0}", h)
  | some .done =>
      -- an attempt that reached no server was counted (and, taken from the iterator, has used up a host)
      if c'.m.cnt > c.m.cnt then ("d", if c'.m.left < c.m.left then realHost mask (nhosts - c.m.left + 1) else hostOf.getD i 0)
      else ("e", hostOf.getD i 0)
  | _ => ("?", hostOf.getD i 0)

def replayTok (pol : Option Policy) (mask : List Char) (e : Nat) (st : CReplay) (tok : String) : CReplay :=
  if st.bad.isSome then st
  else
    let fail (why : String) : CReplay := { st with bad := some s!"{why}@{tok}" }
    let c := st.k.c
    match tok.splitOn ":" with
    | ["X"] => { st with k := ExecutorConc.stepK pol st.k .callerCancel }
    | ["R", res] =>
        if st.gotR then fail "second-result"
        else match c.result with
          | none => fail "result-before-any-completion"
          | some r =>
            if showCRes r != res then fail s!"not-the-first-result:{showCRes r}"
            else { st with k := ExecutorConc.stepK pol st.k .execCancel, gotR := true }
    | [a, out] =>
        let kind := a.toList.headD ' '
        match (String.ofList (a.toList.drop 1)).toNat? with
        | none => fail "bad-token"
        | some i =>
          if i ≥ e then fail "too-many-executions"
          else if kind == 'L' || kind == 'D' then
            let okState := match c.m.exs[i]?, kind with
              | some .idle, 'L' => true
              | some (.counted _), 'D' => true
              | _, _ => false
            if !okState then fail "step-not-enabled"
            else
              let k' := ExecutorConc.stepK pol st.k (.ex (if kind == 'L' then .launch i else .decide i))
              let (want, h) := stepSeen mask st.k k' i st.hostOf
              if want != out then
                -- a request where the machine sends none, after the context of the attempts is done
                if c.attDone && out.startsWith "s" then fail s!"request-after-cancellation:{want}"
                else fail s!"expected:{want}"
              else { st with k := k', hostOf := st.hostOf.set i h }
          else if kind == 'C' || kind == 'c' then
            match c.m.exs[i]?, parseCRes out with
            | some .inflight, some r =>
                if r == .logical && !c.attDone then fail "context-error-without-cancellation"
                else { st with k := ExecutorConc.stepK pol st.k (.ex (.complete i r)) }
            | _, _ => fail "completion-not-enabled"
          else fail "bad-token"
    | _ => fail "bad-token"

def speccOp (kind idem pol a nh cons0 events nreq att obsInfo consEnd : String) : String :=
  let mask := nh.toList
  match parseKind kind, stmtIdempotent kind idem, parsePolicy pol, a.toNat?,
        (if mask.all (fun ch => ch == '1' || ch == '0' || ch == 'c') then some (mask.filter (· == '1')).length else none),
        nreq.toNat?, att.toNat?, cons0.toNat?, consEnd.toNat? with
  | some k, some idm, some p, some sa, some hosts, some n, some cntEnd, some cs0, some csEnd =>
    let e := maxExecutions idm sa
    -- every statement kind runs its attempts under the executor's context (since the repair of KF-C13-2)
    let _ := k
    let toks := events.splitOn ","
    let arrived := (toks.filterMap fun t => if t.startsWith "A" then (t.drop 1).toNat? else none).headD 0
    let st0 : CReplay := { k := ExecutorConc.initK 0 hosts e cs0, hostOf := List.replicate e 0 }
    let st := (toks.filter fun t => !t.startsWith "A").foldl (replayTok p mask e) st0
    if arrived > e then s!"reject:too-many-executions:{arrived}"
    else match st.bad with
    | some why => s!"reject:{why}"
    | none =>
      let m := st.k.c.m
      if !st.gotR then "reject:no-result"
      else if !((List.range arrived).all fun i => m.exs[i]? == some .done) then "reject:execution-not-finished"
      else if n != m.sent then s!"reject:requests:{n}!={m.sent}"
      else if cntEnd != m.cnt then s!"reject:attempts:{cntEnd}!={m.cnt}"
      else if obsInfo != (if m.cnt == 0 then "none" else s!"0-{m.cnt - 1}") then s!"reject:attempt-numbers:{obsInfo}"
      else if csEnd != st.k.cons then s!"reject:consistency-afterwards:{csEnd}!={st.k.cons}"
      else "accept"
  | _, _, _, _, _, _, _, _, _ => "bad-op"

/-! ### `rt` / `att`: the built-in policies' GetRetryType / Attempt on error values and attempt counts -/

def parseWriteType : String → WriteType
  | "SIMPLE" => .simple | "BATCH" => .batch | "COUNTER" => .counter | "UNLOGGED_BATCH" => .unloggedBatch
  | "BATCH_LOG" => .batchLog | "CAS" => .cas | "VIEW" => .view | "CDC" => .cdc | _ => .other

def parseReqErr (s : String) : Option ReqErr :=
  match s.splitOn ":" with
  | ["un", r, a] => do pure (.unavailable (← r.toNat?) (← a.toNat?))
  | ["wt", t, r, b] => do pure (.writeTimeout (parseWriteType t) (← r.toNat?) (← b.toNat?))
  | ["rto", r, b, d] => do pure (.readTimeout (← r.toNat?) (← b.toNat?) (d != "0"))
  | ["other", _] => some .other
  | _ => none

def showRT : RT → String
  | .retry => "retry" | .rethrow => "rethrow" | .ignore => "ignore" | .nextHost => "nexthost" | .unknown => "unknown"

def rtOp (pol err : String) : String :=
  match parseReqErr err with
  | none => "bad-op"
  | some e =>
    if pol == "down" then showRT (downgradingGetRetryType e)
    else if pol == "simple" || pol == "exp" then showRT (simpleGetRetryType e)
    else "bad-op"

def attOp (pol att c0 : String) : String :=
  match att.toNat?, c0.toNat? with
  | some n, some c =>
    let r : Option (Bool × Option Nat) := match pol.splitOn ":" with
      | ["down", ls] =>
          if ls == "-" then some (downgradingAttempt [] n)
          else ((ls.splitOn ".").mapM String.toNat?).map fun l => downgradingAttempt l n
      | ["simple", k] => k.toNat?.map fun k => simpleAttempt k n
      | ["exp", k] => k.toNat?.map fun k => simpleAttempt k n
      | _ => none
    match r with
    | some (ok, nc) => s!"{ok} cons={nc.getD c} sets={if nc.isSome then 1 else 0}"
    | none => "bad-op"
  | _, _ => "bad-op"

/-! ### `met`: the statement's metrics recomputed from the attempts' hosts and latencies (C13_metrics_exact) -/

def parseNats (s : String) : Option (List Nat) := (s.splitOn ":").mapM String.toNat?

def metOp (recs ends : String) : String :=
  let rs : Option (List (List Nat)) := if recs == "-" then some [] else (recs.splitOn ",").mapM parseNats
  match rs, (ends.splitOn ",").mapM parseNats with
  | some rs, some es =>
    if !(rs.all fun r => r.length == 7) || !(es.all fun e => e.length == 3) then "bad-op"
    else
      let hist : List (Nat × Nat) := rs.map fun r => (r.getD 0 0, r.getD 1 0)
      let (_, obs) := QM.run {} hist
      -- every observer record against the model's
      let badRec := (List.range rs.length).find? fun i =>
        let r := rs.getD i []
        let o := obs.getD i ⟨0, 0, 0⟩
        -- … and the Metrics value handed over is a snapshot: read again later it still says the same
        !(r.getD 2 0 == o.hostAttempts && r.getD 3 0 == o.hostTotal && r.getD 4 0 == o.idx &&
          r.getD 5 0 == o.hostAttempts && r.getD 6 0 == o.hostTotal)
      match badRec with
      | some i => s!"reject:observer-record:{i}"
      | none =>
        -- after every execution: Attempts() and Latency()
        let badEnd := es.find? fun e =>
          let q := (QM.run {} (hist.take (e.getD 0 0))).1
          !(e.getD 2 0 == q.totalAttempts && e.getD 1 0 == q.latency)
        match badEnd with
        | some e => s!"reject:after-execution:{e.getD 0 0}"
        | none => "accept"
  | _, _ => "bad-op"

def step (_ : Unit) (ws : List String) : Unit × String :=
  ((), match ws with
  | ["ex", kind, ctor, pol, polAt, obs, idem, sp, ctx, cons, _api, reps, hosts, outs] =>
      exOp kind ctor pol polAt obs idem sp ctx cons reps hosts outs "-"
  | ["ex", kind, ctor, pol, polAt, obs, idem, sp, ctx, cons, _api, reps, hosts, outs, env] =>
      exOp kind ctor pol polAt obs idem sp ctx cons reps hosts outs env
  | ["spec", kind, idem, a, nh, nreq, most, released, result] =>
      match stmtIdempotent kind idem, a.toNat?, nh.toNat?, nreq.toNat?, most.toNat? with
      | some idm, some sa, some hosts, some n, some mx =>
        -- a statement that is not idempotent (a batch: ANY entry that is not) runs as one execution
        let e := maxExecutions idm sa
        if result == "hang" then "reject:no-result"
        else if n > e then s!"reject:too-many-executions:{n}"
        else if n > hosts then s!"reject:more-requests-than-hosts:{n}"
        -- no retry policy: the shared iterator hands every host out once (C13_shared_iterator)
        else if mx > 1 then s!"reject:host-used-twice:{mx}"
        else if result == "noconn" then
          -- an execution that found the shared host iterator exhausted completes first
          if e > hosts then "accept" else "reject:noconn-with-hosts-left"
        else if n == 0 then "reject:never-sent"
        else if released != result then s!"reject:not-first-result:{released}:{result}"
        else "accept"
      | _, _, _, _, _ => "bad-op"
  | ["specr", kind, idem, pol, a, nh, _mode, obs, nreq, most, result, att, obsInfo] =>
      -- speculative executions sharing the statement's attempt counter, observed at quiescence: every schedule obeys
      -- `ExecutorConc.budget` (theorem C13_shared_counter_budget); every request sent has been counted, the
      -- attempts that found the context cancelled are at most one per execution (C13_shared_quiescent_accounted);
      -- the attempts were numbered 0, 1, 2, … without gap or repetition (C13_shared_attempts_numbered)
      match stmtIdempotent kind idem, parsePolicy pol, a.toNat?, nh.toNat?, nreq.toNat?, most.toNat?, att.toNat? with
      | some idm, some _, some sa, some hosts, some n, some mx, some cntEnd =>
        let e := maxExecutions idm sa
        match limitOf pol with
        | none => "bad-op"
        | some lim =>
          if result == "hang" then "reject:no-result"
          else if n > ExecutorConc.budget lim e then s!"reject:over-shared-budget:{n}>{ExecutorConc.budget lim e}"
          else if nextHostOnly pol && n > hosts then s!"reject:more-requests-than-hosts:{n}"
          else if nextHostOnly pol && mx > 1 then s!"reject:host-used-twice:{mx}"
          else if result == "ok" then "reject:ok-from-failing-hosts"
          else if cntEnd < n then s!"reject:attempts-lost:{cntEnd}<{n}"
          else if cntEnd > n + e then s!"reject:attempts-not-sent:{cntEnd}>{n}+{e}"
          else if obs == "on" && obsInfo != (if cntEnd == 0 then "none" else s!"0-{cntEnd - 1}") then
            s!"reject:attempt-numbers:{obsInfo}"
          else "accept"
      | _, _, _, _, _, _, _ => "bad-op"
  | ["specc", kind, idem, pol, a, nh, _ctx, cons0, events, nreq, att, obsInfo, consEnd] =>
      speccOp kind idem pol a nh cons0 events nreq att obsInfo consEnd
  | ["met", _kind, recs, ends] => metOp recs ends
  | ["rt", pol, err] => rtOp pol err
  | ["att", pol, att, c0] => attOp pol att c0
  | ["kf-down-unlogged"] =>
      -- proposed finding KF-C13-3 (theorem C13_cex_downgrading_unlogged_unacked)
      "code=" ++ showRT (downgradingGetRetryType (.writeTimeout .unloggedBatch 0 1)) ++ " documented=" ++
        ((Spec.downgradingDoc (.writeTimeout .unloggedBatch 0 1)).map showRT).getD "-"
  | ["kf-batch-loser"] =>
      -- finding KF-C13-2, repaired: the executor's cancellation reaches a batch's attempts (C13_cancel_stops_requests)
      let c := ExecutorConc.runC (some (simplePolicy 2)) (ExecutorConc.initC 0 3 2)
        [.ex (.launch 0), .ex (.launch 1), .ex (.complete 0 .ok), .ex (.decide 0), .execCancel]
      let c' := ExecutorConc.runC (some (simplePolicy 2)) c [.ex (.complete 1 (.err 9)), .ex (.decide 1)]
      s!"sent-after-result={c'.m.sent - c.m.sent}"
  | ["kf-d10"] =>
      -- known finding KF-C13-1: the attempts do not depend on idempotence
      let out := doQuery ⟨.query, false⟩ (some (simplePolicy 1)) (fun _ => .err 9) (fun _ _ => true) 10 [1, 2] 0 0 1
      "attempts=" ++ ",".intercalate (out.attempts.map (toString ·.host))
  | _ => "bad-op")

end Driver.C13
