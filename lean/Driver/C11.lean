import Model.Policies
import Driver.Util
namespace Driver.C11
open Policies

/-- driver state: the policy under test (a bare round-robin based policy is `ta = false`),
the host objects defined so far and the ids of the objects whose state is DOWN -/
structure St where
  isTA : Bool
  t : TA
  hosts : List Host
  down : List Nat
  evs : List (Ev × Host)   -- the notifier calls so far, NEWEST first
  hot : Bool               -- the counter was preset into the region of KF-C11-3 (≥ 2^63 − 4096)

def init : St := ⟨false, TA.new (Pol.new .rr 0 0) false false false, [], [], [], false⟩

def nat (s : String) : Nat := s.toNat?.getD 0
def natList (s : String) : List Nat := if s == "-" then [] else (s.splitOn ",").map nat
def showIds (l : List Host) : String := if l.isEmpty then "-" else ",".intercalate (l.map (fun h => toString h.id))

def St.host? (s : St) (id : Nat) : Option Host := s.hosts.find? (fun h => h.id == id)
def St.up (s : St) : Nat → Bool := fun id => !s.down.contains id

/-- status of a host according to the history of notifier calls (the property's definition) -/
def St.status (s : St) (h : Host) : Status := statusOf s.evs.reverse h

def insertNat (x : Nat) : List Nat → List Nat
  | [] => [x]
  | y :: r => if x ≤ y then x :: y :: r else y :: insertNat x r
def sortNat (l : List Nat) : List Nat := l.foldl (fun acc x => insertNat x acc) []
def showNats (l : List Nat) : String := if l.isEmpty then "-" else ",".intercalate (l.map toString)

def nodupHosts : List Host → Bool
  | [] => true
  | h :: r => !r.contains h && nodupHosts r

/-- two defined host objects share a connect address -/
def St.alias (s : St) : Bool :=
  s.hosts.any (fun a => s.hosts.any (fun b => a.id != b.id && a.addr == b.addr))

def belowB (p : Pol) : Bool := p.layers.all (fun l => decide (p.ctr + 1 + l.length < 9223372036854775808))

/-- the excluded conditions of `C11_history_exact_partial` (+ its assumptions), decided on the model state:
alias, counter region of KF-C11-3, a ghost host (KF-C11-4), a replica table with a duplicate, a stale
replica in the specified head (KF-C11-5) -/
def St.offerExcluded (s : St) (σ : List Host → List Host) (rk : Option (Nat × Nat)) : Bool :=
  let reps : List Host := match rk with
    | none => []
    | some (ks, tok) => match s.t.replicasFor ks tok with
      | .hosts l ft => if ft && s.t.shuffle then σ l else l
      | _ => []
  s.alias || s.hot || !belowB s.t.pol ||
  s.hosts.any (fun h => (s.status h).ghost) ||
  s.t.replicas.any (fun e => e.2.any (fun f => !nodupHosts f.2)) ||
  (specHead s.t.pol.tier s.t.pol.maxTier s.up s.t.nonlocal reps).any (fun h => !(s.status h).expected true)

/-- the SPECIFICATION's answer to `offer`: the ids of the defined hosts the history expects, sorted -/
def St.specOffer (s : St) : String :=
  showNats (sortNat ((s.hosts.filter (fun h => (s.status h).expected (s.up h.id))).map (·.id)))

def snapshot (s : St) : String :=
  let p := s.t.pol
  "L0=" ++ showIds p.l0 ++ " L1=" ++ showIds p.l1 ++ " L2=" ++ showIds p.l2 ++
    (if s.isTA then " T=" ++ showIds s.t.hosts else "")

/-- apply permutation `perm` (indices) to `l`; identity if it does not fit -/
def applyPerm (perms : List (List Nat)) (l : List Host) : List Host :=
  match perms.find? (fun p => p.length == l.length) with
  | some p => if p.all (· < l.length) then p.map (fun i => l.getD i default) else l
  | none => l

def parseTable (s : St) (ws : List String) : List (Nat × List Host) :=
  ws.map (fun w => match w.splitOn ":" with
    | [t, ids] => (nat t, (natList ids).filterMap s.host?)
    | _ => (0, []))

/-- ops
  reset <rr|dc|rack> <ta 0|1> <localDC> <localRack> <shuffle> <nonlocal> <partitionerSet>
  host <id> <addr> <dc> <rack> <tokens|->          define a HostInfo object (state UP)
  add|remove|hup|hdown <id>                        AddHost / RemoveHost / HostUp / HostDown → snapshot of the lists
  state <id> <1|0>                                 setState(NodeUp|NodeDown)
  repl <ks> <tok>:<ids> ...                        install the replica table of a keyspace
  pick <ks|-> <tok|-> <limit> <perm;perm;...|->    Pick + up to <limit> iterator calls → ids offered
  ctr <n>                                          the (fallback) policy has served n picks (VerifSetPickCount)
  offer <ks|-> <tok|-> <perm;...|->                SPEC-BACKED: Pick + full drain → sorted ids; the answer is the
                                                   specification's (hosts expected by the history), which
                                                   `C11_history_exact_partial` proves to be what the model offers;
                                                   `excluded` (nothing done) under an excluded condition -/
def step (s : St) (ws : List String) : St × String :=
  match ws with
  | ["reset", k, ta, ldc, lrack, sh, nl, ps] =>
    let kind := if k == "rr" then Kind.rr else if k == "dc" then Kind.dc else Kind.rack
    ({ isTA := ta == "1", t := TA.new (Pol.new kind (nat ldc) (nat lrack)) (sh == "1") (nl == "1") (ta == "1" && ps == "1"),
       hosts := [], down := [], evs := [], hot := false }, "ok")
  | ["ctr", n] =>
    ({ s with t := { s.t with pol := s.t.pol.setCtr (nat n) },
              hot := decide (nat n % 18446744073709551616 ≥ 9223372036854775808 - 4096) }, "ok")
  | ["host", id, addr, dc, rack, toks] =>
    ({ s with hosts := ⟨nat id, nat addr, nat dc, nat rack, natList toks⟩ :: s.hosts.filter (fun h => h.id != nat id) }, "ok")
  | ["race", _] => (s, "ok")   -- thorough tier: concurrent run on the real code (no panic, no nil host); nothing to model
  | [op, id] =>
    match s.host? (nat id) with
    | none => (s, "bad-op")
    | some h =>
      let t' := if op == "add" then (if s.isTA then s.t.add h else { s.t with pol := s.t.pol.add h })
        else if op == "remove" then (if s.isTA then s.t.remove h else { s.t with pol := s.t.pol.remove h })
        else if op == "hup" then s.t.hostUp h
        else if op == "hdown" then s.t.hostDown h
        else s.t
      let ev? : Option Ev := if op == "add" then some .add else if op == "remove" then some .remove
        else if op == "hup" then some .hup else if op == "hdown" then some .hdown else none
      let s' := { s with t := t', evs := match ev? with | some e => (e, h) :: s.evs | none => s.evs }
      (s', snapshot s')
  | ["state", id, v] =>
    ({ s with down := if v == "1" then s.down.filter (· != nat id) else nat id :: s.down.filter (· != nat id) }, "ok")
  | "repl" :: ks :: tab =>
    ({ s with t := s.t.setReplicas (nat ks) (parseTable s tab) }, "ok")
  | ["pick", ks, tok, limit, perms] =>
    let rk := if tok == "-" || ks == "-" then none else some (nat ks, nat tok)
    let ps := if perms == "-" then [] else (perms.splitOn ";").map natList
    let (t', r) := s.t.pick s.up (applyPerm ps) rk (nat limit)
    ({ s with t := t' }, match r with
      | .seq l => showIds l
      | .crash => "crash:index-out-of-range")
  | ["offer", ks, tok, perms] =>
    let rk := if tok == "-" || ks == "-" then none else some (nat ks, nat tok)
    let ps := if perms == "-" then [] else (perms.splitOn ";").map natList
    if s.offerExcluded (applyPerm ps) rk then (s, "excluded")
    else
      let (t', _) := s.t.pick s.up (applyPerm ps) rk 1000
      ({ s with t := t' }, s.specOffer)
  | _ => (s, "bad-op")

end Driver.C11
