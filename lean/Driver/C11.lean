import Driver.Util
namespace Driver.C11
/-- placeholder: replaced when the property's model is built -/
def step (_ : Unit) (_ : List String) : Unit × String := ((), "unimplemented")
def init : Unit := ()
end Driver.C11
