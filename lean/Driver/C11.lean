import Model.Policies
import Driver.Util
namespace Driver.C11
open Policies

/-- driver state: the policy under test (a bare round-robin based policy is `ta = false`),
the host objects defined so far and the ids of the objects whose state is DOWN -/
structure St where
  isTA : Bool
  t : TA
  hosts : List Host
  down : List Nat

def init : St := ⟨false, TA.new (Pol.new .rr 0 0) false false false, [], []⟩

def nat (s : String) : Nat := s.toNat?.getD 0
def natList (s : String) : List Nat := if s == "-" then [] else (s.splitOn ",").map nat
def showIds (l : List Host) : String := if l.isEmpty then "-" else ",".intercalate (l.map (fun h => toString h.id))

def St.host? (s : St) (id : Nat) : Option Host := s.hosts.find? (fun h => h.id == id)
def St.up (s : St) : Nat → Bool := fun id => !s.down.contains id

def snapshot (s : St) : String :=
  let p := s.t.pol
  "L0=" ++ showIds p.l0 ++ " L1=" ++ showIds p.l1 ++ " L2=" ++ showIds p.l2 ++
    (if s.isTA then " T=" ++ showIds s.t.hosts else "")

/-- apply permutation `perm` (indices) to `l`; identity if it does not fit -/
def applyPerm (perms : List (List Nat)) (l : List Host) : List Host :=
  match perms.find? (fun p => p.length == l.length) with
  | some p => if p.all (· < l.length) then p.map (fun i => l.getD i default) else l
  | none => l

def parseTable (s : St) (ws : List String) : List (Nat × List Host) :=
  ws.map (fun w => match w.splitOn ":" with
    | [t, ids] => (nat t, (natList ids).filterMap s.host?)
    | _ => (0, []))

/-- ops
  reset <rr|dc|rack> <ta 0|1> <localDC> <localRack> <shuffle> <nonlocal> <partitionerSet>
  host <id> <addr> <dc> <rack> <tokens|->          define a HostInfo object (state UP)
  add|remove|hup|hdown <id>                        AddHost / RemoveHost / HostUp / HostDown → snapshot of the lists
  state <id> <1|0>                                 setState(NodeUp|NodeDown)
  repl <ks> <tok>:<ids> ...                        install the replica table of a keyspace
  pick <ks|-> <tok|-> <limit> <perm;perm;...|->    Pick + up to <limit> iterator calls → ids offered -/
def step (s : St) (ws : List String) : St × String :=
  match ws with
  | ["reset", k, ta, ldc, lrack, sh, nl, ps] =>
    let kind := if k == "rr" then Kind.rr else if k == "dc" then Kind.dc else Kind.rack
    ({ isTA := ta == "1", t := TA.new (Pol.new kind (nat ldc) (nat lrack)) (sh == "1") (nl == "1") (ta == "1" && ps == "1"),
       hosts := [], down := [] }, "ok")
  | ["host", id, addr, dc, rack, toks] =>
    ({ s with hosts := ⟨nat id, nat addr, nat dc, nat rack, natList toks⟩ :: s.hosts.filter (fun h => h.id != nat id) }, "ok")
  | ["race", _] => (s, "ok")   -- thorough tier: concurrent run on the real code (no panic, no nil host); nothing to model
  | [op, id] =>
    match s.host? (nat id) with
    | none => (s, "bad-op")
    | some h =>
      let t' := if op == "add" then (if s.isTA then s.t.add h else { s.t with pol := s.t.pol.add h })
        else if op == "remove" then (if s.isTA then s.t.remove h else { s.t with pol := s.t.pol.remove h })
        else if op == "hup" then s.t.hostUp h
        else if op == "hdown" then s.t.hostDown h
        else s.t
      let s' := { s with t := t' }
      (s', snapshot s')
  | ["state", id, v] =>
    ({ s with down := if v == "1" then s.down.filter (· != nat id) else nat id :: s.down.filter (· != nat id) }, "ok")
  | "repl" :: ks :: tab =>
    ({ s with t := s.t.setReplicas (nat ks) (parseTable s tab) }, "ok")
  | ["pick", ks, tok, limit, perms] =>
    let rk := if tok == "-" || ks == "-" then none else some (nat ks, nat tok)
    let ps := if perms == "-" then [] else (perms.splitOn ";").map natList
    let (t', r) := s.t.pick s.up (applyPerm ps) rk (nat limit)
    ({ s with t := t' }, match r with
      | .seq l => showIds l
      | .crash => "crash:nil-host-dereference")
  | _ => (s, "bad-op")

end Driver.C11
