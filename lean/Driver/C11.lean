import Model.Policies
import Driver.Util
namespace Driver.C11
open Policies

/-- one live iterator (op `open`): the model iterator, what `Pick` was asked, the replica list it works with,
whether that list is guaranteed fresh (session keyspace table / token ring), the mutation epoch at `open` -/
structure Slot where
  id : Nat
  it : Iter
  reps : List Host
  fresh : Bool
  epoch : Nat
  broken : Bool      -- the iterator panicked: no further use
  lit : LIter        -- the same iterator with the up/down state read at every call (`Policies.LIter`)
  stch : Bool        -- the state of some host object changed since `open`: `it` (state fixed at `open`) no longer applies

/-- a burst that was applied in op-line order and waits for its `settle` line -/
structure Pending where
  pre0 : List Host
  pre1 : List Host
  pre2 : List Host
  preT : List Host
  calls : List (String × Nat)
  changedT : Bool

/-- driver state: the policy under test (a bare round-robin based policy is `ta = false`),
the host objects defined so far and the ids of the objects whose state is DOWN -/
structure St where
  isTA : Bool
  t : TA
  hosts : List Host
  down : List Nat
  evs : List (Ev × Host)   -- the notifier calls so far, NEWEST first
  hot : Bool               -- the counter was preset into the region of KF-C11-3 (≥ 2^63 − 4096)
  slots : List Slot        -- live iterators
  epoch : Nat              -- number of mutating ops so far
  taint : List Nat         -- hosts with non-commuting concurrent calls whose outcome no sequential add/remove has settled
  inj : List Nat           -- keyspaces whose CURRENT table was installed by a `repl` line (hook, not the code's path)
                           -- and has not been recomputed by the policy since
  pending : Option Pending

def init : St := ⟨false, TA.new (Pol.new .rr 0 0) false false false, [], [], [], false, [], 0, [], [], none⟩

def nat (s : String) : Nat := s.toNat?.getD 0
def natList (s : String) : List Nat := if s == "-" then [] else (s.splitOn ",").map nat
def showIds (l : List Host) : String := if l.isEmpty then "-" else ",".intercalate (l.map (fun h => toString h.id))

def St.host? (s : St) (id : Nat) : Option Host := s.hosts.find? (fun h => h.id == id)
def St.up (s : St) : Nat → Bool := fun id => !s.down.contains id

/-- status of a host according to the history of notifier calls (the property's definition) -/
def St.status (s : St) (h : Host) : Status := statusOf s.evs.reverse h

def insertNat (x : Nat) : List Nat → List Nat
  | [] => [x]
  | y :: r => if x ≤ y then x :: y :: r else y :: insertNat x r
def sortNat (l : List Nat) : List Nat := l.foldl (fun acc x => insertNat x acc) []
def showNats (l : List Nat) : String := if l.isEmpty then "-" else ",".intercalate (l.map toString)

def nodupHosts : List Host → Bool
  | [] => true
  | h :: r => !r.contains h && nodupHosts r

/-- two defined host objects share a connect address -/
def St.alias (s : St) : Bool :=
  s.hosts.any (fun a => s.hosts.any (fun b => a.id != b.id && a.addr == b.addr))

def belowB (p : Pol) : Bool := p.layers.all (fun l => decide (p.ctr + 1 + l.length < 9223372036854775808))

/-- `m` more picks stay below the counter bound (every pick of the run has `ctr + 1 + layer length < 2^63`) -/
def belowM (p : Pol) (m : Nat) : Bool := p.layers.all (fun l => decide (p.ctr + m + l.length < 9223372036854775808))

/-- the replica list of a query (after shuffling) and whether it is guaranteed FRESH: it comes from the token
ring (rebuilt on every change of the policy's host list) or from a table the policy computed itself (after the
repair of KF-C10-4 EVERY held table is recomputed on every such change) — i.e. not from a table a hook line
installed and the policy has not recomputed since -/
def St.repsOf (s : St) (σ : List Host → List Host) (rk : Option (Nat × Nat)) : List Host × Bool :=
  match rk with
  | none => ([], true)
  | some (ks, tok) => match s.t.replicasFor ks tok with
    | .hosts l ft => (if ft && s.t.shuffle then σ l else l, !ft || !s.inj.contains ks)
    | _ => ([], true)

/-- the excluded conditions of `C11_history_exact_partial` (+ its assumptions), decided on the model state:
alias, counter region of KF-C11-3, a ghost host (KF-C11-4), a replica table with a duplicate, a host with
unsettled non-commuting concurrent calls, a stale replica in the specified head (KF-C11-5, case (b): a replica
the last call about which was `HostDown` while its state is up), a replica that is not known in a table that
was installed through the hook (an assumption on the installed table, not a finding) -/
def St.offerExcluded (s : St) (reps : List Host) (fresh : Bool) : Bool :=
  s.alias || s.hot || !belowB s.t.pol ||
  s.hosts.any (fun h => (s.status h).ghost) ||
  !s.taint.isEmpty ||
  s.t.replicas.any (fun e => e.2.any (fun f => !nodupHosts f.2)) ||
  (specHead s.t.pol.tier s.t.pol.maxTier s.up s.t.nonlocal reps).any (fun h =>
    (s.status h).last == some .hdown || (!(s.status h).known && !fresh))

/-- (seventh round) status of the host's KEY (tier, address) and whether the object stands for its key, by the history -/
def St.kstatus (s : St) (h : Host) : Status := keyStatus s.t.pol.key s.evs.reverse (s.t.pol.key h)
def St.isOwner (s : St) (h : Host) : Bool := ownerOf s.t.pol.key s.evs.reverse (s.t.pol.key h) == some h

/-- the excluded conditions of `C11_identity_history_exact_partial` (`offer` with two host objects on one address):
counter region of KF-C11-3, a ghost key (KF-C11-4), unsettled concurrent calls, a replica table with a duplicate,
a host of the specified replica head that is not the listed object of its key -/
def St.aliasExcluded (s : St) (reps : List Host) : Bool :=
  s.hot || !belowB s.t.pol ||
  s.hosts.any (fun h => (s.kstatus h).ghost) ||
  !s.taint.isEmpty ||
  s.t.replicas.any (fun e => e.2.any (fun f => !nodupHosts f.2)) ||
  (specHead s.t.pol.tier s.t.pol.maxTier s.up s.t.nonlocal reps).any (fun h => !s.isOwner h)

/-- the SPECIFICATION's answer to `offer` with shared keys: the objects that stand for a key the history expects -/
def St.specOfferAlias (s : St) : String :=
  showNats (sortNat ((s.hosts.filter (fun h => expectedObj s.t.pol.key s.evs.reverse s.up h)).map (·.id)))

/-- the SPECIFICATION's answer to `offer`: the ids of the defined hosts the history expects, sorted -/
def St.specOffer (s : St) : String :=
  showNats (sortNat ((s.hosts.filter (fun h => (s.status h).expected (s.up h.id))).map (·.id)))

def snapshot (s : St) : String :=
  let p := s.t.pol
  "L0=" ++ showIds p.l0 ++ " L1=" ++ showIds p.l1 ++ " L2=" ++ showIds p.l2 ++
    (if s.isTA then " T=" ++ showIds s.t.hosts else "")

/-- apply permutation `perm` (indices) to `l`; identity if it does not fit -/
def applyPerm (perms : List (List Nat)) (l : List Host) : List Host :=
  match perms.find? (fun p => p.length == l.length) with
  | some p => if p.all (· < l.length) then p.map (fun i => l.getD i default) else l
  | none => l

def parseTable (s : St) (ws : List String) : List (Nat × List Host) :=
  ws.map (fun w => match w.splitOn ":" with
    | [t, ids] => (nat t, (natList ids).filterMap s.host?)
    | _ => (0, []))

def evOf (op : String) : Option Ev :=
  if op == "add" then some .add else if op == "remove" then some .remove
  else if op == "hup" then some .hup else if op == "hdown" then some .hdown else none

/-- one notifier call on the model -/
def St.call (s : St) (op : String) (h : Host) : St :=
  let t' := if op == "add" then (if s.isTA then s.t.add h else { s.t with pol := s.t.pol.add h })
    else if op == "remove" then (if s.isTA then s.t.remove h else { s.t with pol := s.t.pol.remove h })
    else if op == "hup" then s.t.hostUp h
    else if op == "hdown" then s.t.hostDown h
    else s.t
  { s with t := t', evs := (match evOf op with | some e => (e, h) :: s.evs | none => s.evs),
           inj := if s.isTA && t'.hosts.map (·.id) != s.t.hosts.map (·.id) then [] else s.inj }

def showTable (tab : List (Nat × List Host)) : String :=
  if tab.isEmpty then "empty" else " ".intercalate (tab.map (fun e => toString e.1 ++ ":" ++ showIds e.2))

/-- `ks = nil` (Pick(nil)) and `ks = err` (GetRoutingKey fails) are queries without a usable routing key -/
def parseRk (ks tok : String) : Option (Nat × Nat) :=
  if tok == "-" || ks == "-" || ks == "nil" || ks == "err" then none else some (nat ks, nat tok)
def parsePerms (perms : String) : List (List Nat) := if perms == "-" then [] else (perms.splitOn ";").map natList

/-- `key=ids` → ids -/
def parseKV (w : String) : List Nat := match w.splitOn "=" with | [_, v] => natList v | _ => []

def addType (c : String) : Bool := c == "add" || c == "hup"
def remType (c : String) : Bool := c == "remove" || c == "hdown"

/-- `settle`: the lists observed on the real code after a burst against the burst's calls. For every list: the
hosts without non-commuting calls in the burst must be there iff the calls (in any order) leave them there;
no host twice; the hosts that were there before and stay keep their order. -/
def checkList (name : String) (conf : Nat → Bool) (model pre obs : List Host) : Option String :=
  if !nodupHosts obs then some ("dup@" ++ name) else
  match model.find? (fun h => !conf h.id && !obs.contains h) with
  | some h => some ("lost:" ++ toString h.id ++ "@" ++ name)
  | none =>
    match obs.find? (fun h => !conf h.id && !model.contains h) with
    | some h => some ("phantom:" ++ toString h.id ++ "@" ++ name)
    | none =>
      if obs.filter (fun h => !conf h.id && pre.contains h) == pre.filter (fun h => !conf h.id && obs.contains h) then none
      else some ("reordered@" ++ name)

/-- op `burst`: the calls applied to the model in op-line order; the burst then waits for its `settle` line -/
def St.burst (s : St) (calls : List String) : St × String :=
    if calls.isEmpty then (s, "bad-op") else
    if s.alias then (s, "bad-op") else
    -- (w-s11f) `addhosts:<id>+<id>+...` = ONE AddHosts call among the concurrent calls: to the history it is AddHost of
    -- each of its hosts (`cs`: one record per host); the model applies it as `TA.addHosts` (AddHost per host for a bare policy)
    let cs : List (String × Nat) := calls.flatMap (fun w => match w.splitOn ":" with
      | [c, i] => if c == "addhosts" then (i.splitOn "+").map (fun x => ("add", nat x)) else [(c, nat i)]
      | _ => [("", 0)])
    if cs.any (fun c => evOf c.1 == none || (s.host? c.2).isNone) then (s, "bad-op") else
    let p := s.t.pol
    let one (acc : St × Bool) (c : String × Nat) : St × Bool := match acc.1.host? c.2 with
        | some h => let n := acc.1.call c.1 h
                    (n, acc.2 || (n.t.hosts.map (·.id) != acc.1.t.hosts.map (·.id)))
        | none => acc
    let s' := calls.foldl (fun (acc : St × Bool) w => match w.splitOn ":" with
        | [c, i] =>
          if c == "addhosts" then
            let hs := (i.splitOn "+").filterMap (fun x => acc.1.host? (nat x))
            if acc.1.isTA then
              let t' := acc.1.t.addHosts hs
              ({ acc.1 with t := t', evs := (hs.map (fun h => (Ev.add, h))).reverse ++ acc.1.evs, inj := [] },
               acc.2 || (t'.hosts.map (·.id) != acc.1.t.hosts.map (·.id)))
            else hs.foldl (fun a h => one a ("add", h.id)) acc
          else one acc (c, nat i)
        | _ => acc) (s, false)
    ({ s'.1 with epoch := s'.1.epoch + 1, pending := some ⟨p.l0, p.l1, p.l2, s.t.hosts, cs, s'.2⟩ }, "ok")

/-- ops
  reset <rr|dc|rack> <ta 0|1> <localDC> <localRack> <shuffle> <nonlocal> <partitionerSet>
  sessks <ks>                                      (right after reset) the session keyspace is <ks>
  ksmeta <ks> <rf|local|none>                      keyspace metadata: SimpleStrategy rf / LocalStrategy / unknown keyspace
  kschg <ks>                                       KeyspaceChanged(<ks>)
  table <ks>                                       the replica table the policy holds for <ks> (none / empty / tok:ids ...)
  host <id> <addr> <dc> <rack> <tokens|->          define a HostInfo object (state UP)
  hostp <id> <hostid> <addr> <port> <dc> <rack> <tokens|->   the same with an explicit host id and native port
  add|remove|hup|hdown <id>                        AddHost / RemoveHost / HostUp / HostDown → snapshot of the lists
  flap <id> <trials> <pickers> <updown|remadd>     SPEC-BACKED: Picks concurrent with HostUp / AddHost / RemoveHost of the host,
                                                   quiescent drain after every trial → ok
  kstab <ks> none|empty|<tok>:<ids> ...            the table the policy holds for a NetworkTopologyStrategy keyspace (observed)
  setpart                                          SetPartitioner(OrderedPartitioner) after reset (late partitioner)
  islocal <id>                                     IsLocal(host) [HostTier/MaxHostTier for a HostTierer]
  addhosts <id,id,...>                             AddHosts([...]) (token-aware policy; AddHost per host otherwise: Session.init)
  state <id> <1|0>                                 setState(NodeUp|NodeDown); live iterators go on (they read the state at every call)
  repl <ks> <tok>:<ids> ...                        install the replica table of a keyspace (hook)
  pick <ks|-> <tok|-> <limit> <perm;perm;...|->    Pick + up to <limit> iterator calls → ids offered
  ctr <n>                                          the (fallback) policy has served n picks (VerifSetPickCount)
  offer <ks|-> <tok|-> <perm;...|->                SPEC-BACKED: Pick + full drain → sorted ids; the answer is the
                                                   specification's (hosts expected by the history), which
                                                   `C11_history_exact_partial` proves to be what the model offers;
                                                   `excluded` (nothing done) under an excluded condition
  open <slot> <ks|-> <tok|-> <perm;...|->          Pick; the iterator stays alive in <slot>
  next <slot> <n>                                  up to n calls of the iterator → ids [end]
  offerit <slot>                                   SPEC-BACKED: drain the rest of the iterator → sorted ids of EVERYTHING it
                                                   offered since `open` (`C11_iterators_independent`: what a lone pick offers)
  rotate <ks|-> <tok|-> <m>                        SPEC-BACKED: <m> successive Picks, each drained, nothing in between →
                                                   `balanced` | `skewed:<tier>`: per tier, how often each host is the FIRST
                                                   one offered from the tier after the replica phases (`tierBalanced`);
                                                   `C11_rotation_balanced_partial` proves `balanced` for the model;
                                                   `excluded` (nothing done) under an excluded condition of `offer` or
                                                   the counter bound
  burst <call>:<id> ...                            the calls run CONCURRENTLY (one goroutine each) → ok;
                                                   `addhosts:<id>+<id>+...` = one AddHosts call among them
  gburst <gate id> <call>:<id> ...                 the same under a forced schedule: every call is parked where it first
                                                   reads the address of host <gate id> until all calls are in progress → ok
  settle L0=.. L1=.. L2=.. [T=..]                  SPEC-BACKED: the lists observed after the burst → ok | lost/phantom/dup/reordered -/
def step (s : St) (ws : List String) : St × String :=
  let bump (s : St) : St := { s with epoch := s.epoch + 1 }
  match ws with
  | ["reset", k, ta, ldc, lrack, sh, nl, ps] =>
    let kind := if k == "rr" then Kind.rr else if k == "dc" then Kind.dc else Kind.rack
    ({ init with isTA := ta == "1", t := TA.new (Pol.new kind (nat ldc) (nat lrack)) (sh == "1") (nl == "1") (ta == "1" && ps == "1") }, "ok")
  | ["sessks", ks] => (bump { s with t := { s.t with sessKs := some (nat ks) } }, "ok")
  | ["ksmeta", ks, v] =>
    -- (w-s11f) "nts:..." = NetworkTopologyStrategy: not computed by this model (placement is C10's model); to the model
    -- the keyspace is unknown and its table arrives as `kstab` lines
    let m : Option (Option Nat) := if v == "none" || v.startsWith "nts" then none else if v == "local" then some none else some (some (nat v))
    (bump { s with t := s.t.setMeta (nat ks) m }, "ok")
  | ["flap", id, ts, ks, mode] =>
    -- (round 2) SPEC-BACKED: <ts> trials of: a quiet preparing call about the host, then the opposite call CONCURRENT with
    -- <ks> Picks, then a quiescent full drain that must offer exactly the hosts of the history. A Pick reads a snapshot
    -- of the lists and writes nothing but the rotation counter (`C11_picks_write_no_lists`): at quiescence the lists are
    -- what the notifier calls alone leave - the host is listed again, at the end of its tier; the counter has moved on by
    -- one per Pick (<ks> + the drain, per trial). The model's answer is `ok`.
    match s.host? (nat id) with
    | none => (s, "bad-op")
    | some h =>
      let T := nat ts
      let K := nat ks
      if s.alias || T < 1 || T > 100000 || K < 1 || K > 32 || (mode != "updown" && mode != "remadd") then (s, "bad-op") else
      let s1 := if mode == "updown" then (s.call "hdown" h).call "hup" h else (s.call "remove" h).call "add" h
      let t' : TA := { s1.t with pol := s1.t.pol.setCtr (s1.t.pol.ctr + T * (K + 1)) }
      (bump { s1 with t := t', down := if mode == "updown" then s1.down.filter (· != h.id) else s1.down,
                      taint := if mode == "remadd" then s1.taint.filter (· != h.id) else s1.taint }, "ok")
  | "kstab" :: ks :: tab =>
    if !s.isTA || tab.isEmpty then (s, "bad-op") else
    let k := nat ks
    let t' : TA :=
      if tab == ["none"] then { s.t with replicas := s.t.replicas.filter (fun e => e.1 != k) }
      else if tab == ["empty"] then s.t.setReplicas k []
      else s.t.setReplicas k (parseTable s tab)
    (bump { s with t := t', inj := if tab == ["none"] then s.inj.filter (· != k) else k :: s.inj.filter (· != k) }, "ok")
  | ["setpart"] =>
    (bump { s with t := if s.isTA then s.t.setPartitioner else s.t, inj := if s.isTA && !s.t.partSet then [] else s.inj }, "ok")
  | ["islocal", id] =>
    match s.host? (nat id) with
    | none => (s, "bad-op")
    | some h =>
      let p := s.t.pol
      (s, (if p.tier h == 0 then "1" else "0") ++
        (if p.kind == .rack then " " ++ toString (p.tier h) ++ "/" ++ toString p.maxTier else ""))
  | ["addhosts", idl] =>
    let hs := (natList idl).filterMap s.host?
    if s.alias || hs.isEmpty || hs.length != (natList idl).length then (s, "bad-op") else
    let t' : TA := if s.isTA then s.t.addHosts hs else { s.t with pol := hs.foldl Pol.add s.t.pol }
    let s' := bump { s with t := t', evs := (hs.map (fun h => (Ev.add, h))).reverse ++ s.evs,
                            taint := s.taint.filter (fun i => !(natList idl).contains i),
                            inj := if s.isTA then [] else s.inj }
    (s', snapshot s')
  | ["kschg", ks] =>
    (bump { s with t := if s.isTA then s.t.keyspaceChanged (nat ks) else s.t, inj := s.inj.filter (· != nat ks) }, "ok")
  | ["table", ks] =>
    (s, if !s.isTA || !s.t.partSet then "none" else
      match s.t.replicas.find? (fun e => e.1 == nat ks) with
      | some e => showTable e.2
      | none => "none")
  | ["ctr", n] =>
    let t' : TA := { s.t with pol := s.t.pol.setCtr (nat n) }
    (bump { s with t := t', hot := decide (nat n % 18446744073709551616 ≥ 9223372036854775808 - 4096) }, "ok")
  | ["host", id, addr, dc, rack, toks] =>
    ({ s with hosts := ⟨nat id, nat addr, nat dc, nat rack, natList toks⟩ :: s.hosts.filter (fun h => h.id != nat id) }, "ok")
  | ["hostp", id, _hid, addr, _port, dc, rack, toks] =>
    -- host id and native port are not part of the model's `Host`: nothing in policies.go / `HostInfo.Equal` reads them
    ({ s with hosts := ⟨nat id, nat addr, nat dc, nat rack, natList toks⟩ :: s.hosts.filter (fun h => h.id != nat id) }, "ok")
  | ["race", _] => (s, "ok")   -- thorough tier: concurrent run on the real code (no panic, no nil host); nothing to model
  | ["offerit", slot] =>
    match s.slots.find? (fun x => x.id == nat slot) with
    | none => (s, "bad-op")
    | some sl =>
      if sl.broken then (s, "bad-op") else
      if sl.epoch != s.epoch || sl.stch || s.offerExcluded sl.reps sl.fresh then (s, "excluded")
      else
        let r := s.t.nextN s.up sl.it 1000
        let rl := s.t.nextLN s.up sl.lit 1000
        let sl' := { sl with it := r.2.1, lit := rl.2.1, broken := r.2.2.2 == some Next.panic }
        ({ s with t := r.1, slots := sl' :: s.slots.filter (fun x => x.id != sl.id) }, s.specOffer)
  | "gburst" :: gate :: calls =>
    -- a GATED burst: the same calls, run under the schedule "every call parked at its first read of host <gate>
    -- until all are in progress"; the model's answer does not depend on the schedule (`C11_cow_concurrent_linearizable`)
    if (s.host? (nat gate)).isNone || calls.isEmpty || calls.any (fun w => w.splitOn ":" == ["add", gate] ||
        w.splitOn ":" == ["remove", gate] || w.splitOn ":" == ["hup", gate] || w.splitOn ":" == ["hdown", gate] ||
        (match w.splitOn ":" with | [c, i] => c == "addhosts" && (i.splitOn "+").contains gate | _ => false))
    then (s, "bad-op") else s.burst calls
  | "burst" :: calls => s.burst calls
  | "settle" :: kvs =>
    match s.pending with
    | none => (s, "bad-op")
    | some pd =>
      let ids (k : String) : List Nat := match kvs.find? (fun w => w.startsWith (k ++ "=")) with | some w => parseKV w | none => []
      let allIds := ids "L0" ++ ids "L1" ++ ids "L2" ++ ids "T"
      if allIds.any (fun i => (s.host? i).isNone) then (s, "bad-op") else
      let hs (k : String) : List Host := (ids k).filterMap s.host?
      let confF (i : Nat) : Bool := pd.calls.any (fun c => c.2 == i && addType c.1) && pd.calls.any (fun c => c.2 == i && remType c.1)
      let confT (i : Nat) : Bool := pd.calls.any (fun c => c.2 == i && c.1 == "add") && pd.calls.any (fun c => c.2 == i && c.1 == "remove")
      let p := s.t.pol
      let wrongTier : Option String :=
        ((hs "L0").find? (fun h => p.tier h != 0)).map (fun h => "phantom:" ++ toString h.id ++ "@L0") <|>
        ((hs "L1").find? (fun h => p.tier h != 1 || p.kind == .rr)).map (fun h => "phantom:" ++ toString h.id ++ "@L1") <|>
        ((hs "L2").find? (fun h => p.tier h != 2 || p.kind != .rack)).map (fun h => "phantom:" ++ toString h.id ++ "@L2")
      let verdict : Option String :=
        wrongTier <|>
        checkList "L0" confF p.l0 pd.pre0 (hs "L0") <|>
        checkList "L1" confF p.l1 pd.pre1 (hs "L1") <|>
        checkList "L2" confF p.l2 pd.pre2 (hs "L2") <|>
        (if s.isTA then checkList "T" confT s.t.hosts pd.preT (hs "T") else none)
      match verdict with
      | some v => ({ s with pending := none }, v)
      | none =>
        let t1 : TA := { s.t with pol := { p with l0 := hs "L0", l1 := hs "L1", l2 := hs "L2" },
                                  hosts := if s.isTA then hs "T" else s.t.hosts }
        let t2 := if s.isTA && pd.changedT then t1.refresh else t1
        let newTaint := (pd.calls.map (·.2)).filter (fun i => confF i || confT i)
        (bump { s with t := t2, pending := none, taint := newTaint ++ s.taint.filter (fun i => !newTaint.contains i),
                       inj := if s.isTA && pd.changedT then [] else s.inj }, "ok")
  | [op, id] =>
    match s.host? (nat id) with
    | none => (s, "bad-op")
    | some h =>
      if evOf op == none then (s, "bad-op") else
      let s' := bump (s.call op h)
      let s' := if op == "add" || op == "remove" then { s' with taint := s'.taint.filter (· != h.id) } else s'
      (s', snapshot s')
  | ["state", id, v] =>
    if (s.host? (nat id)).isNone then (s, "bad-op") else
    -- (w-s11f) live iterators stay alive: they read the state at every call (`LIter`)
    ({ s with down := if v == "1" then s.down.filter (· != nat id) else nat id :: s.down.filter (· != nat id),
              slots := s.slots.map (fun sl => { sl with stch := true }) }, "ok")
  | "repl" :: ks :: tab =>
    let t' : TA := if s.t.partSet then s.t.setReplicas (nat ks) (parseTable s tab) else s.t
    (bump { s with t := t', inj := if s.t.partSet then nat ks :: s.inj.filter (· != nat ks) else s.inj }, "ok")
  | ["pick", ks, tok, limit, perms] =>
    let (t', r) := s.t.pick s.up (applyPerm (parsePerms perms)) (parseRk ks tok) (nat limit)
    ({ s with t := t' }, match r with
      | .seq l => showIds l
      | .crash => "crash:index-out-of-range")
  | ["offer", ks, tok, perms] =>
    let σ := applyPerm (parsePerms perms)
    let rk := parseRk ks tok
    let rf := s.repsOf σ rk
    if s.alias then
      -- two host objects on one address: the specification per list key (`C11_identity_history_exact_partial`)
      if s.aliasExcluded rf.1 then (s, "excluded")
      else
        let (t', _) := s.t.pick s.up σ rk 1000
        ({ s with t := t' }, s.specOfferAlias)
    else
    if s.offerExcluded rf.1 rf.2 then (s, "excluded")
    else
      let (t', _) := s.t.pick s.up σ rk 1000
      ({ s with t := t' }, s.specOffer)
  | ["rotate", ks, tok, ms] =>
    let m := nat ms
    let rk := parseRk ks tok
    let rf := s.repsOf id rk
    if s.offerExcluded rf.1 rf.2 || !belowM s.t.pol m then (s, "excluded")
    else
      let σs : Nat → List Host → List Host := fun _ l => l
      let runs := TA.rotateRun s.t s.up σs rk 0 m
      let s' := { s with t := Nat.repeat TA.drained m s.t }
      if runs.any (fun r => r.2.crashed) then (s', "crash:index-out-of-range")
      else (s', match s.t.rotateVerdict s.up σs rk m with
        | none => "balanced"
        | some t => "skewed:" ++ toString t)
  | ["open", slot, ks, tok, perms] =>
    let σ := applyPerm (parsePerms perms)
    let rk := parseRk ks tok
    let rf := s.repsOf σ rk
    let (t', it) := s.t.openIter s.up σ rk
    let (_, lit) := s.t.openL σ rk
    ({ s with t := t', slots := ⟨nat slot, it, rf.1, rf.2, s.epoch, false, lit, false⟩ :: s.slots.filter (fun x => x.id != nat slot) }, "ok")
  | ["next", slot, n] =>
    match s.slots.find? (fun x => x.id == nat slot) with
    | none => (s, "bad-op")
    | some sl =>
      if sl.broken then (s, "bad-op") else
      -- the answer is the LAZY iterator's (state read now); while no state changed since `open` the eager iterator
      -- must agree with it - offered hosts, how the calls ended, the policy's counter (cross-check of the two models)
      let rl := s.t.nextLN s.up sl.lit (nat n)
      let r := s.t.nextN s.up sl.it (nat n)
      let agree := sl.stch || (r.2.2.1 == rl.2.2.1 && r.2.2.2 == rl.2.2.2 && r.1.pol.ctr == rl.1.pol.ctr)
      let sl' := { sl with it := r.2.1, lit := rl.2.1, broken := rl.2.2.2 == some Next.panic }
      let s' := { s with t := rl.1, slots := sl' :: s.slots.filter (fun x => x.id != sl.id) }
      (s', if !agree then "model-mismatch:lazy-vs-eager-iterator" else match rl.2.2.2 with
        | some Next.panic => "crash:index-out-of-range"
        | some _ => showIds rl.2.2.1 ++ " end"
        | none => showIds rl.2.2.1)
  | _ => (s, "bad-op")

end Driver.C11
