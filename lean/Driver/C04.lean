import Model.FrameRead
import Model.RespSpec
import Model.Rows
import Model.RowDataSpec
import Model.Compress
import Model.RowsReuse
import Model.RowsPaged
import Driver.Util
import Driver.C12
namespace Driver.C04
open Util FrameRead RespSpec

/-! # line protocol of C04 (see harness/cmd/c04/main.go)

  resp  <fv> <logical response> <wire>    the logical response is parsed, checked well-formed, encoded
        with the SPECIFICATION encoder (must equal <wire>), the MODEL parser runs on that encoding
  respx / raw / rowsx                     the model runs on the given bytes (model-vs-code)
  comp  like resp (compression is transparent: C04_compressed)
  (the Lean models describe gocql AFTER the repairs of KF-C04-1, -2, -4, -5: against an unrepaired
   checkout the spec-backed ops resp / rows / skip disagree on the former known-finding inputs)
  rows  <api> <dests> <fv> <logical response> <wire>   model of the consumer API + the specification's
        expectation of the cells (must agree)
  skip / skipx  <fv> <PREPARED response> <wire1> ROWSRESP <ROWS response> <wire2>   executeQuery's iterator
        with skip-metadata; skip: + the specification's expectation
  reuse <api> <init> <fv> D <n> <go type>*n <logical response> <wire>   typed destinations (Go types in the token
        syntax of Driver/C12.lean) created ONCE (init Z: zero values, D: RowsReuse.dirtyOf) and REUSED for every row
        through scan | scanner | mapscan (a new map per row holding pointers to the same variables); the answer lists the destinations' values after every row. Model: Model/RowsReuse.lean;
        specification: every cell decoded on its own into a fresh zero value (C04_rows_independent) — must agree
  reusex ...   the same, model only (the excluded class of C04_rows_independent_partial, wrong destination counts,
        rows that do not fit the metadata)
  pages <api> <fv> <prefetch%> <k> (<logical response> WIRE <wire>)*k   a whole query through a real Session: the k-th request of the
        query (the QUERY and the fetches of its further pages) is answered with the k-th response; scan | scanner with
        a recorder on every destination; the answer is everything the application sees: the first page's view
        (metadata, row count, warnings, custom payload), per Scan call the page switch (the new page's view) and the
        cells, the final error with its fields, the trace ids the Tracer got. Model: Model/RowsPaged.lean;
        specification: Driver.C04.pagesSpec from the logical responses alone (C04_pages_scan / C04_pages_scanner,
        C04_query_view) — must agree
  qone <api> <fv> <ndests> (<logical response> WIRE <wire>)+   Query.Scan / ScanCAS / MapScanCAS; empty first pages that announce more are skipped (model only)
  pagesx ...   the same, model only (answers that are no result / error, UNPREPARED, void in the middle, pages of
        different shapes, tuple<> columns, a last page that announces more) -/

/-! ## token parser for logical responses -/

abbrev TP := StateT (List String) Option

def tok : TP String := fun s => match s with | [] => none | t :: r => some (t, r)

def tNat : TP Nat := do
  let t ← tok
  match t.toNat? with
  | some n => pure n
  | none => failure

def tInt : TP Int := do
  let t ← tok
  match t.toInt? with
  | some n => pure n
  | none => failure

def tHex : TP RespSpec.Bytes := do
  let t ← tok
  match parseHex t with
  | some b => pure b
  | none => failure

def tOptBytes : TP (Option RespSpec.Bytes) := do
  let t ← tok
  if t == "null" then pure none
  else match parseHex t with
    | some b => pure (some b)
    | none => failure

def tMany {α : Type} (p : TP α) : Nat → TP (List α)
  | 0 => pure []
  | n + 1 => do
    let x ← p
    let xs ← tMany p n
    pure (x :: xs)

def tCounted {α : Type} (p : TP α) : TP (List α) := do
  let n ← tNat
  tMany p n

partial def tType : TP TypeDesc := do
  let k ← tok
  match k with
  | "n" => do let id ← tNat; pure (.native id)
  | "c" => do let c ← tHex; pure (.custom c)
  | "l" => do let e ← tType; pure (.list e)
  | "s" => do let e ← tType; pure (.set e)
  | "m" => do let a ← tType; let b ← tType; pure (.map a b)
  | "u" => do
    let ks ← tHex; let nm ← tHex
    let fs ← tCounted (do let n ← tHex; let t ← tType; pure (n, t))
    pure (.udt ks nm (FieldDescs.ofList fs))
  | "t" => do
    let es ← tCounted tType
    pure (.tuple (TypeDescs.ofList es))
  | _ => failure

def tPaging : TP (Option RespSpec.Bytes) := do
  let t ← tok
  if t == "N" then pure none
  else if t == "Y" then do let b ← tHex; pure (some b)
  else failure

def tMeta : TP Meta := do
  let pg ← tPaging
  let k ← tok
  match k with
  | "O" => do
    let n ← tNat; let g ← tNat
    pure { paging := pg, cols := .omitted n (g == 1) }
  | "G" => do
    let ks ← tHex; let tb ← tHex
    let cs ← tCounted (do let n ← tHex; let t ← tType; pure (n, t))
    pure { paging := pg, cols := .global ks tb cs }
  | "C" => do
    let cs ← tCounted (do
      let ks ← tHex; let tb ← tHex; let n ← tHex; let t ← tType
      pure ({ ks := ks, table := tb, name := n, typ := t } : ColSpec))
    pure { paging := pg, cols := .perCol cs }
  | _ => failure

def tCell : TP Cell := do
  let k ← tok
  match k with
  | "null" => pure .null
  | "b" => do let b ← tHex; pure (.bytes b)
  | "t" => do let fs ← tCounted tOptBytes; pure (.tuple fs)
  | _ => failure

def tSchemaChange : TP SchemaChange := do
  let k ← tok
  let ch ← tHex
  let ks ← tHex
  match k with
  | "K" => pure (.keyspace ch ks)
  | "T" => do let n ← tHex; pure (.table ch ks n)
  | "U" => do let n ← tHex; pure (.udt ch ks n)
  | "F" => do let n ← tHex; let a ← tCounted tHex; pure (.function ch ks n a)
  | "A" => do let n ← tHex; let a ← tCounted tHex; pure (.aggregate ch ks n a)
  | _ => failure

def tFailures : TP Failures := do
  let k ← tok
  match k with
  | "C" => do let n ← tInt; pure (.count n)
  | "M" => do
    let m ← tCounted (do let a ← tHex; let c ← tNat; pure (a, c))
    pure (.reasons m)
  | _ => failure

def tErr : TP ErrBody := do
  let k ← tok
  match k with
  | "S" => do let c ← tNat; pure (.simple c)
  | "UNAV" => do let cl ← tNat; let a ← tInt; let b ← tInt; pure (.unavailable cl a b)
  | "WTO" => do let cl ← tNat; let a ← tInt; let b ← tInt; let w ← tHex; pure (.writeTimeout cl a b w)
  | "RTO" => do let cl ← tNat; let a ← tInt; let b ← tInt; let d ← tNat; pure (.readTimeout cl a b d)
  | "RF" => do let cl ← tNat; let a ← tInt; let b ← tInt; let f ← tFailures; let d ← tNat; pure (.readFailure cl a b f d)
  | "FF" => do let ks ← tHex; let fn ← tHex; let a ← tCounted tHex; pure (.functionFailure ks fn a)
  | "WF" => do let cl ← tNat; let a ← tInt; let b ← tInt; let f ← tFailures; let w ← tHex; pure (.writeFailure cl a b f w)
  | "CDC" => pure .cdcWriteFailure
  | "CAS" => do let cl ← tNat; let a ← tInt; let b ← tInt; pure (.casWriteUnknown cl a b)
  | "AE" => do let ks ← tHex; let tb ← tHex; pure (.alreadyExists ks tb)
  | "UNP" => do let id ← tHex; pure (.unprepared id)
  | _ => failure

def tResult : TP Result := do
  let k ← tok
  match k with
  | "VOID" => pure .void
  | "ROWS" => do
    let m ← tMeta
    let rows ← tCounted (tCounted tCell)
    pure (.rows m rows)
  | "KS" => do let ks ← tHex; pure (.setKeyspace ks)
  | "PREP" => do
    let id ← tHex
    let pk ← tCounted tNat
    let req ← tMeta
    let t ← tok
    if t == "N" then pure (.prepared id pk req none)
    else if t == "M" then do let m ← tMeta; pure (.prepared id pk req (some m))
    else failure
  | "SC" => do let sc ← tSchemaChange; pure (.schemaChange sc)
  | _ => failure

def tBody : TP Body := do
  let k ← tok
  match k with
  | "ERR" => do let msg ← tHex; let e ← tErr; pure (.error msg e)
  | "READY" => pure .ready
  | "AUTH" => do let c ← tHex; pure (.authenticate c)
  | "SUP" => do
    let o ← tCounted (do let k ← tHex; let v ← tCounted tHex; pure (k, v))
    pure (.supported o)
  | "RES" => do let r ← tResult; pure (.result r)
  | "EV" => do
    let e ← tok
    match e with
    | "TOPO" => do let ch ← tHex; let a ← tHex; let p ← tInt; pure (.event (.topology ch a p))
    | "STAT" => do let ch ← tHex; let a ← tHex; let p ← tInt; pure (.event (.status ch a p))
    | "SCH" => do let sc ← tSchemaChange; pure (.event (.schema sc))
    | _ => failure
  | "CHAL" => do let t ← tOptBytes; pure (.authChallenge t)
  | "SUCC" => do let t ← tOptBytes; pure (.authSuccess t)
  | _ => failure

/-- `<v> <stream> <trace> <warnings> <payload> <beta> <body>` -/
def tResp : TP (Nat × LResp) := do
  let v ← tNat
  let stream ← tInt
  let tr ← tPaging
  let w ← tok
  let warnings ← (if w == "N" then pure none else if w == "W" then do let l ← tCounted tHex; pure (some l) else failure)
  let p ← tok
  let payload ← (if p == "N" then pure none
    else if p == "P" then do
      let l ← tCounted (do let k ← tHex; let x ← tOptBytes; pure (k, x))
      pure (some l)
    else failure)
  let beta ← tNat
  let body ← tBody
  pure (v, { stream := stream, tracing := tr, warnings := warnings, payload := payload, beta := beta == 1, body := body })

/-! ## canonical dumps (must match /repo/verif_export_c04.go) -/

def hexO : Option FrameRead.Bytes → String
  | none => "nil"
  | some b => toHex b

def commas (l : List String) : String := ",".intercalate l

def sortStrings (l : List String) : List String := (l.toArray.qsort (· < ·)).toList

def strList (l : List FrameRead.Bytes) : String := "[" ++ commas (l.map toHex) ++ "]"

def dNative (n : Native) : String := toString n.typ ++ "," ++ toHex n.custom

partial def dType : TypeInfo → String
  | .native n => "N(" ++ dNative n ++ ")"
  | .coll n key elem =>
    "C(" ++ dNative n ++ "," ++ (match key with | some k => dType k | none => "nil") ++ "," ++ dType elem ++ ")"
  | .tuple n elems => "T(" ++ dNative n ++ ",[" ++ commas (elems.map dType) ++ "])"
  | .udt n ks name fields =>
    "U(" ++ dNative n ++ "," ++ toHex ks ++ "," ++ toHex name ++ ",[" ++
      commas (fields.map (fun f => toHex f.1 ++ ":" ++ dType f.2)) ++ "])"

def dMeta (m : ResultMeta) : String :=
  "M(" ++ toString m.flags ++ "," ++ hexO m.pagingState ++ ",[" ++
    commas (m.columns.map (fun c => toHex c.keyspace ++ "." ++ toHex c.table ++ "." ++ toHex c.name ++ ":" ++ dType c.typ)) ++
    "]," ++ toString m.colCount ++ "," ++ toString m.actualColCount ++ ")"

def dErrMap : Option (List (FrameRead.Bytes × Nat)) → String
  | none => "nil"
  | some m => "{" ++ commas (sortStrings (m.map (fun kc => toHex kc.1 ++ "=" ++ toString kc.2))) ++ "}"

def dErr : ErrDetail → String
  | .plain => "plain"
  | .unavailable cl a b => s!"unav({cl},{a},{b})"
  | .writeTimeout cl a b w => s!"wto({cl},{a},{b},{toHex w})"
  | .readTimeout cl a b d => s!"rto({cl},{a},{b},{d.toNat})"
  | .alreadyExists ks tb => s!"ae({toHex ks},{toHex tb})"
  | .unprepared id => s!"unp({toHex id})"
  | .readFailure cl a b n d m => s!"rf({cl},{a},{b},{n},{d},{dErrMap m})"
  | .writeFailure cl a b n w m => s!"wf({cl},{a},{b},{n},{toHex w},{dErrMap m})"
  | .functionFailure ks fn args => s!"ff({toHex ks},{toHex fn},{strList args})"
  | .cdcWriteFailure => "cdc"
  | .casWriteUnknown cl a b => s!"cas({cl},{a},{b})"

def dPk : Option (List Nat) → String
  | none => "nil"
  | some l => "[" ++ commas (l.map toString) ++ "]"

def dFrame : Frame → String
  | .error code msg d => s!"ERR({code},{toHex msg},{dErr d})"
  | .ready => "READY"
  | .supported m => "SUP{" ++ commas (sortStrings (m.map (fun kv => toHex kv.1 ++ "=" ++ strList kv.2))) ++ "}"
  | .authenticate c => s!"AUTH({toHex c})"
  | .authChallenge d => s!"CHAL({hexO d})"
  | .authSuccess d => s!"SUCC({hexO d})"
  | .resultVoid => "VOID"
  | .resultRows md n => s!"ROWS({dMeta md},{n})"
  | .resultKeyspace ks => s!"KS({toHex ks})"
  | .resultPrepared id req resp =>
    s!"PREP({toHex id},PM({dMeta req.md},{dPk req.pkeyColumns},{toHex req.keyspace},{toHex req.table}),{dMeta resp})"
  | .schemaKeyspace ch ks => s!"SCK({toHex ch},{toHex ks})"
  | .schemaTable ch ks o => s!"SCT({toHex ch},{toHex ks},{toHex o})"
  | .schemaType ch ks o => s!"SCU({toHex ch},{toHex ks},{toHex o})"
  | .schemaFunction ch ks n a => s!"SCF({toHex ch},{toHex ks},{toHex n},{strList a})"
  | .schemaAggregate ch ks n a => s!"SCA({toHex ch},{toHex ks},{toHex n},{strList a})"
  | .topologyChange ch h p => s!"TOPO({toHex ch},{toHex h},{p})"
  | .statusChange ch h p => s!"STAT({toHex ch},{toHex h},{p})"

def dPayload : Option (List (FrameRead.Bytes × Option FrameRead.Bytes)) → String
  | none => "nil"
  | some m => "{" ++ commas (sortStrings (m.map (fun kv => toHex kv.1 ++ "=" ++ hexO kv.2))) ++ "}"

def dWarnings : Option (List FrameRead.Bytes) → String
  | none => "nil"
  | some l => strList l

def dOutcome (h : Header) : Outcome (Resp × FrameRead.Bytes) → String
  | .err => "err"
  | .crash => "crash:go"
  | .ok (r, rest) =>
    s!"ok S:{h.stream},{h.op.toNat} T:{hexO r.traceId} W:{dWarnings r.warnings} P:{dPayload r.payload} " ++
    s!"H:{if r.frame.headerCopied then 1 else 0} F:{dFrame r.frame} R:{toHex rest}"

/-! ## the receive path on wire bytes: readHeader + readFrame (Model/Compress.lean, C18), parseFrame -/

def recvModel (fv : Nat) (wire : FrameRead.Bytes) : Option (Header × FrameRead.Bytes) :=
  let f := Compress.newFramer none (UInt8.ofNat fv)
  match f.decode wire with
  | .ok (h, body) =>
    -- the harness's hook refuses trailing bytes after the frame
    let hs := if (h.version &&& 0x7f) < 3 then 8 else 9
    if wire.length != hs + body.length then none
    else some ({ version := h.version, flags := h.flags, stream := h.stream, op := h.op, length := h.length }, body)
  | .error _ => none

def onWire (fv : Nat) (wire : FrameRead.Bytes) : String :=
  match recvModel fv wire with
  | none => "err"
  | some (h, body) => dOutcome h (parseResp fv h body)

/-! ## rows through the consumer APIs -/

open Rows in
def dCalls (cs : List Call) : String :=
  ";".intercalate (cs.map (fun c => s!"{c.dest}={dType c.typ}:{hexO c.data}"))

def widthsOf (cols : List ColumnInfo) : Nat :=
  (cols.map (fun c => match c.typ with | .tuple _ es => es.length | _ => 1)).sum

def destsOf (pat : String) (cols : List ColumnInfo) : List Bool :=
  if pat == "A" then List.replicate (widthsOf cols) true
  else pat.toList.map (· == '1')

open Rows in
def iterEnd (it : Iter) : String :=
  if it.failed then s!"end:1,{it.pos},x" else s!"end:0,{it.pos},{toHex it.buf}"

open Rows in
def scanLoop (dests : List Bool) : Nat → Iter → List String → Option (List String × Iter)
  | 0, it, acc => some (acc, it)
  | fuel + 1, it, acc =>
    match scan it dests with
    | .row it' calls => scanLoop dests fuel it' (acc ++ [dCalls calls])
    | .stop it' calls => some (if calls.isEmpty then acc else acc ++ ["!" ++ dCalls calls], it')
    | .crash => none

open Rows in
def scannerLoop (dests : List Bool) : Nat → Scanner → List String → Option (List String × String × Scanner)
  | 0, s, acc => some (acc, "done", s)
  | fuel + 1, s, acc =>
    match s.next with
    | .crash => none
    | .err => none
    | .ok (s', false) => some (acc, "done", s')
    | .ok (s', true) =>
      match s'.scan dests with
      | .ok s'' calls => scannerLoop dests fuel s'' (acc ++ [dCalls calls])
      | .error s'' calls => some (acc ++ ["!" ++ dCalls calls], "scanerr", s'')
      | .crash => none

def dMap (m : List (FrameRead.Bytes × String)) : String :=
  "{" ++ commas (sortStrings (m.map (fun kv => toHex kv.1 ++ "=" ++ kv.2))) ++ "}"

open Rows in
def mapScanLoop : Nat → Iter → List String → Option (List String × Iter)
  | 0, it, acc => some (acc, it)
  | fuel + 1, it, acc =>
    match mapScan it with
    | .row it' m => mapScanLoop fuel it' (acc ++ [dMap (m.map (fun kv => (kv.1, hexO kv.2)))])
    | .stop it' => some (acc, it')
    | .crash => none

open Rows in
def rowsModel (api pat : String) (fv : Nat) (wire : FrameRead.Bytes) : String :=
  match recvModel fv wire with
  | none => "err"
  | some (h, body) =>
    match parseResp fv h body with
    | .err => "err"
    | .crash => "crash:go"
    | .ok (r, rest) =>
      match r.frame with
      | .resultRows md n =>
        let it := iterOf md n rest
        let dests := destsOf pat md.columns
        let fuel := n.toNat + 1
        let out := "ok M:" ++ dMeta md
        match api with
        | "scan" =>
          match scanLoop dests fuel it [] with
          | none => "crash:go"
          | some (rows, it') => out ++ " rows:[" ++ "|".intercalate rows ++ "] " ++ iterEnd it'
        | "scanner" =>
          match scannerLoop dests (fuel + 1) it.scanner [] with
          | none => "crash:go"
          | some (rows, status, s) =>
            out ++ " rows:[" ++ "|".intercalate rows ++ "] " ++ status ++ " err:" ++ (if s.it.failed then "1" else "0")
        | "mapscan" =>
          match mapScanLoop fuel it [] with
          | none => "crash:go"
          | some (rows, it') => out ++ " rows:[" ++ "|".intercalate rows ++ "] " ++ iterEnd it'
        | "slicemap" =>
          match sliceMap it with
          | .crash => "crash:go"
          | .error _ => out ++ " err"
          | .rows ms it' =>
            out ++ " rows:[" ++ "|".intercalate (ms.map (fun m => dMap (m.map (fun kv => (kv.1, toHex kv.2))))) ++ "] " ++ iterEnd it'
        | _ => "bad-op"
      | _ => "err"

/-! ## the specification's expectation of the cells (independent of the Rows model) -/

/-- the destinations a row fills, in order: (type, data) per destination; a tuple column expands to
    one destination per element, a null tuple fills every element with null -/
def expectRow : List TypeDesc → List Cell → Option (List (TypeInfo × Option FrameRead.Bytes))
  | [], [] => some []
  | t :: ts, c :: cs =>
    match expectRow ts cs with
    | none => none
    | some rest =>
      match t, c with
      | .tuple es, .null => some ((viewTypes es).map (fun e => (e, none)) ++ rest)
      | .tuple es, .tuple fs => if fs.length == es.length then some ((viewTypes es).zip fs ++ rest) else none
      | .tuple _, .bytes _ => none
      | t, .null => some ((viewType t, none) :: rest)
      | t, .bytes b => some ((viewType t, some b) :: rest)
      | _, .tuple _ => none
  | _, _ => none

def dExpectScan (row : List (TypeInfo × Option FrameRead.Bytes)) : String :=
  ";".intercalate ((List.range row.length).zip row |>.map (fun jx => s!"{jx.1}={dType jx.2.1}:{hexO jx.2.2}"))

/-- expected answer of a `rows` op from the logical response alone -/
def rowsSpec (api : String) (v : Nat) (r : LResp) : Option String :=
  match r.body with
  | .result (.rows m rs) =>
    let types := colTypes m.cols
    match rs.mapM (expectRow types) with
    | none => none
    | some rows =>
      let md := viewMeta m
      let out := "ok M:" ++ dMeta md
      let fin := s!"end:0,{rs.length},-"
      match api with
      | "scan" => some (out ++ " rows:[" ++ "|".intercalate (rows.map dExpectScan) ++ "] " ++ fin)
      | "scanner" => some (out ++ " rows:[" ++ "|".intercalate (rows.map dExpectScan) ++ "] done err:0")
      | "mapscan" =>
        -- RowData's names by the specification (Model/RowDataSpec.lean); a column without a Go type
        -- (C04_no_go_type_is_error): false + error when there is a row, a normal end otherwise
        match rowDataSpec m.cols with
        | some names =>
          some (out ++ " rows:[" ++ "|".intercalate (rows.map (fun row => dMap (names.zip (row.map (fun x => hexO x.2))))) ++ "] " ++ fin)
        | none => some (out ++ " rows:[] " ++ (if rs.isEmpty then fin else "end:1,0,x"))
      | "slicemap" =>
        match rowDataSpec m.cols with
        | some names =>
          some (out ++ " rows:[" ++ "|".intercalate (rows.map (fun row => dMap (names.zip (row.map (fun x => toHex (x.2.getD [])))))) ++ "] " ++ fin)
        | none => some (if rs.isEmpty then out ++ " rows:[] " ++ fin else out ++ " err")
      | _ => none
  | _ => none


/-! ## typed destinations reused across rows (Model/RowsReuse.lean) -/

open Marshal in
def dVals (vs : List GoVal) : String := ";".intercalate (vs.map Driver.C12.showVal)

open Marshal in
def initVals (init : String) (tys : List GoTy) : List GoVal :=
  if init == "D" then tys.map RowsReuse.dirtyOf else tys.map zeroOf

open Rows RowsReuse Marshal in
def scanLoopT (p : Nat) (tys : List GoTy) : Nat → Iter → List GoVal → List String → Option (List String × Iter)
  | 0, it, _, acc => some (acc, it)
  | fuel + 1, it, vals, acc =>
    match scanT p it tys vals with
    | .row it' vals' => scanLoopT p tys fuel it' vals' (acc ++ [dVals vals'])
    | .stop it' _ => some (if it'.failed then acc ++ ["!"] else acc, it')
    | .crash => none
    | .unmodelled => some (acc ++ ["unmodelled"], it)

open Rows RowsReuse Marshal in
def mapScanLoopT (p : Nat) (tys : List GoTy) : Nat → Iter → List GoVal → List String → Option (List String × Iter)
  | 0, it, _, acc => some (acc, it)
  | fuel + 1, it, vals, acc =>
    match mapScanT p it tys vals with
    | .row it' vals' => mapScanLoopT p tys fuel it' vals' (acc ++ [dVals vals'])
    | .stop it' _ => some (if it'.failed then acc ++ ["!"] else acc, it')
    | .crash => none
    | .unmodelled => some (acc ++ ["unmodelled"], it)

open Rows RowsReuse Marshal in
def scannerLoopT (p : Nat) (tys : List GoTy) : Nat → Scanner → List GoVal → List String → Option (List String × String × Scanner)
  | 0, s, _, acc => some (acc, "done", s)
  | fuel + 1, s, vals, acc =>
    match s.next with
    | .crash => none
    | .err => none
    | .ok (s', false) => some (acc, "done", s')
    | .ok (s', true) =>
      match scannerScanT p s' tys vals with
      | .ok s'' vals' => scannerLoopT p tys fuel s'' vals' (acc ++ [dVals vals'])
      | .error s'' _ => some (acc ++ ["!"], "scanerr", s'')
      | .crash => none
      | .unmodelled => some (acc ++ ["unmodelled"], "done", s')

open Rows RowsReuse Marshal in
def reuseModel (api init : String) (fv : Nat) (tys : List GoTy) (wire : FrameRead.Bytes) : String :=
  match recvModel fv wire with
  | none => "err"
  | some (h, body) =>
    match parseResp fv h body with
    | .err => "err"
    | .crash => "crash:go"
    | .ok (r, rest) =>
      match r.frame with
      | .resultRows md n =>
        let it := iterOf md n rest
        let fuel := n.toNat + 1
        let out := "ok M:" ++ dMeta md
        let vals := initVals init tys
        match api with
        | "scan" =>
          match scanLoopT fv tys fuel it vals [] with
          | none => "crash:go"
          | some (rows, it') => out ++ " rows:[" ++ "|".intercalate rows ++ "] " ++ iterEnd it'
        | "mapscan" =>
          match mapScanLoopT fv tys fuel it vals [] with
          | none => "crash:go"
          | some (rows, it') => out ++ " rows:[" ++ "|".intercalate rows ++ "] " ++ iterEnd it'
        | "scanner" =>
          match scannerLoopT fv tys (fuel + 1) it.scanner vals [] with
          | none => "crash:go"
          | some (rows, status, s) =>
            out ++ " rows:[" ++ "|".intercalate rows ++ "] " ++ status ++ " err:" ++ (if s.it.failed then "1" else "0")
        | _ => "bad-op"
      | _ => "err"

open RowsReuse Marshal in
/-- every destination of a row decoded on its own into a fresh zero value; `none`: some Unmarshal fails -/
def freshRow (p : Nat) (tys : List GoTy) (row : List (FrameRead.TypeInfo × Option FrameRead.Bytes)) : Option (List GoVal) :=
  (row.zip tys).mapM (fun x => match unmarshalFresh p (cqlOf x.1.1) x.2 x.1.2 with
    | .ok v => some v
    | _ => none)

open Marshal in
/-- the rows up to (excluding) the first one with a cell that does not decode; did one fail? -/
def freshRows (p : Nat) (tys : List GoTy) : List (List (FrameRead.TypeInfo × Option FrameRead.Bytes)) → List String × Bool
  | [] => ([], false)
  | row :: more =>
    match freshRow p tys row with
    | none => ([], true)
    | some vals => let (l, f) := freshRows p tys more; (dVals vals :: l, f)

open Marshal in
/-- expected answer of a `reuse` op from the logical response alone: what each row's cells say, whatever the
    destinations held before -/
def reuseSpec (api : String) (v : Nat) (r : LResp) (tys : List GoTy) : Option String :=
  match r.body with
  | .result (.rows m rs) =>
    match rs.mapM (expectRow (colTypes m.cols)) with
    | none => none
    | some rows =>
      if rows.any (fun row => row.length != tys.length) then none else
      let out := "ok M:" ++ dMeta (viewMeta m)
      let (l, failed) := freshRows v tys rows
      let shown := if failed then l ++ ["!"] else l
      match api with
      | "scan" | "mapscan" =>
        some (out ++ " rows:[" ++ "|".intercalate shown ++ "] " ++
          (if failed then s!"end:1,{l.length},x" else s!"end:0,{rs.length},-"))
      | "scanner" =>
        some (out ++ " rows:[" ++ "|".intercalate shown ++ "] " ++ (if failed then "scanerr err:0" else "done err:0"))
      | _ => none
  | _ => none

/-- `D <n> <go type>*n` -/
def parseDests (ws : List String) : Option (List Marshal.GoTy × List String) :=
  match ws with
  | "D" :: n :: r => (match n.toNat? with
      | some n => Driver.C12.pMany (Driver.C12.pGoTy (r.length + 1)) n r
      | none => none)
  | _ => none

/-! ## skip-metadata end to end: PREPARED response, then a page; conn.go executeQuery's iterator -/

open Rows in
def skipModel (fv : Nat) (wire1 wire2 : FrameRead.Bytes) : String :=
  match recvModel fv wire1, recvModel fv wire2 with
  | some (h1, b1), some (h2, b2) =>
    match parseResp fv h1 b1, parseResp fv h2 b2 with
    | .ok (r1, _), .ok (r2, rest) =>
      match r1.frame, r2.frame with
      | .resultPrepared _ _ resp, .resultRows x n =>
        match iterMeta true (some resp) x with
        | none => "err"
        | some md =>
          let it := iterOf md n rest
          let dests := List.replicate (widthsOf md.columns) true
          match scanLoop dests (n.toNat + 1) it [] with
          | none => "crash:go"
          | some (rows, it') =>
            "ok M:" ++ dMeta md ++ " W:" ++ dWarnings r2.warnings ++ " rows:[" ++ "|".intercalate rows ++ "] " ++ iterEnd it'
      | _, _ => "err"
    | _, _ => "err"
  | _, _ => "err"

/-- the specification's expectation when the driver asked to skip the metadata: a NO_METADATA page
    is read with the prepared statement's result metadata `mp` (and the page's paging state), a page
    that carries metadata anyway with its own (C04_skip_metadata) -/
def skipSpec (prep page : LResp) : Option String :=
  match prep.body, page.body with
  | .result (.prepared _ _ _ (some mp)), .result (.rows pm rs) =>
    match pm.cols with
    | .omitted _ _ =>
      match rs.mapM (expectRow (colTypes mp.cols)) with
      | none => none
      | some rows =>
        let md := { viewMeta mp with pagingState := some (pm.paging.getD []) }
        some ("ok M:" ++ dMeta md ++ " W:" ++ dWarnings page.warnings ++ " rows:[" ++ "|".intercalate (rows.map dExpectScan) ++
          "] " ++ s!"end:0,{rs.length},-")
    | cols =>
      match rs.mapM (expectRow (colTypes cols)) with
      | none => none
      | some rows =>
        some ("ok M:" ++ dMeta (viewMeta pm) ++ " W:" ++ dWarnings page.warnings ++ " rows:[" ++
          "|".intercalate (rows.map dExpectScan) ++ "] " ++ s!"end:0,{rs.length},-")
  | _, _ => none

def tSkip : TP (Nat × LResp × FrameRead.Bytes × Nat × LResp × FrameRead.Bytes) := do
  let (v1, r1) ← tResp
  let w1 ← tHex
  let sep ← tok
  if sep != "ROWSRESP" then failure
  let (v2, r2) ← tResp
  let w2 ← tHex
  pure (v1, r1, w1, v2, r2, w2)


/-! ## a whole query over its pages (Model/RowsPaged.lean) -/

open Paged in
def dIterErr : Option IterErr → String
  | none => "nil"
  | some (.server code msg d) => s!"E({code},{toHex msg},{dErr d})"
  | some .protocol => "protocol"
  | some .parse => "other"
  | some .scan => "other"

def dPageView (md : ResultMeta) (numRows : Int) (w : Option (List FrameRead.Bytes))
    (p : Option (List (FrameRead.Bytes × Option FrameRead.Bytes))) : String :=
  s!"M:{dMeta md} N:{numRows} W:{dWarnings w} P:{dPayload p}"

open Paged in
def dQView (q : QIter) : String :=
  match q.hdr with
  | some h => dPageView q.it.md q.it.numRows h.warnings h.payload
  | none => dPageView q.it.md q.it.numRows none none

open Paged in
/-- the trace ids the query's Tracer is called with: one call per parsed response that carries a non-empty id -/
def tracerCalls (fv : Nat) (consumed : List FrameRead.Bytes) : List FrameRead.Bytes :=
  consumed.filterMap (fun w => match recv fv w with
    | .ok (r, _) => (match r.traceId with
      | some t => if t.length > 0 then some t else none
      | none => none)
    | _ => none)

def dTrace (l : List FrameRead.Bytes) : String := "TR:[" ++ commas (l.map toHex) ++ "]"

open Rows Paged in
/-- `for { dests := one recorder per destination of the CURRENT page; if !iter.Scan(dests...) { break } }` -/
def pagesScanLoop (fv : Nat) : Nat → List FrameRead.Bytes → QIter → List String → Option (List String × QIter × List FrameRead.Bytes)
  | 0, fut, q, acc => some (acc, q, fut)
  | fuel + 1, fut, q, acc =>
    let dests := List.replicate (widthsOf q.it.md.columns) true
    let sw := willSwitchPage q          -- the harness asks Iter.WillSwitchPage() before the call
    match pscan fv true dests fut q with
    | .row q' fut' calls => pagesScanLoop fv fuel fut' q' (acc ++ [(if sw then "PG(" ++ dQView q' ++ ")>" else "") ++ dCalls calls])
    | .stop q' fut' calls =>
      some (acc ++ [(if sw then "PG(" ++ dQView q' ++ ")>" else "") ++ (if calls.isEmpty then "" else "!" ++ dCalls calls) ++ "$"], q', fut')
    | .crash => none

open Rows Paged in
/-- `sc := iter.Scanner(); for sc.Next() { sc.Scan(dests...) }` with the destinations of the FIRST page's shape -/
def pagesScannerLoop (fv : Nat) (dests : List Bool) : Nat → List FrameRead.Bytes → PScanner → List String →
    Option (List String × String × PScanner × List FrameRead.Bytes)
  | 0, fut, s, acc => some (acc, "done", s, fut)
  | fuel + 1, fut, s, acc =>
    match pnext fv true fut s with
    | .crash => none
    | .ok s' fut' false => some (acc, "done", s', fut')
    | .ok s' fut' true =>
      match pscannerScan s' dests with
      | .ok s'' calls => pagesScannerLoop fv dests fuel fut' { s' with cols := s''.cols, valid := s''.valid } (acc ++ [dCalls calls])
      | .error _ calls => some (acc ++ ["!" ++ dCalls calls], "scanerr", s', fut')
      | .crash => none

/-- an upper bound of the number of Scan calls: every row of every page (as the frames announce them) and
    one call per page -/
def pagesFuel (fv : Nat) (wires : List FrameRead.Bytes) : Nat :=
  (wires.map (fun w => match Paged.recv fv w with
    | .ok (r, _) => (match r.frame with | .resultRows _ n => n.toNat + 2 | _ => 2)
    | _ => 2)).sum + 2

open Rows Paged in
def pagesModel (api : String) (fv : Nat) (wires : List FrameRead.Bytes) : String :=
  match execute fv true wires with
  | none => "crash:go"
  | some (q0, fut0) =>
    let out := "ok P0(" ++ dQView q0 ++ ")"
    let fuel := pagesFuel fv wires
    match api with
    | "scan" =>
      match pagesScanLoop fv fuel fut0 q0 [] with
      | none => "crash:go"
      | some (evs, q, fut) =>
        out ++ " rows:[" ++ "|".intercalate evs ++ "] end:" ++ dIterErr q.err ++ " " ++
          dTrace (tracerCalls fv (wires.take (wires.length - fut.length)))
    | "scanner" =>
      match pagesScannerLoop fv (List.replicate (widthsOf q0.it.md.columns) true) fuel fut0 q0.scanner [] with
      | none => "crash:go"
      | some (evs, status, s, fut) =>
        out ++ " rows:[" ++ "|".intercalate evs ++ "] " ++ status ++ " end:" ++ dIterErr s.q.err ++ " " ++
          dTrace (tracerCalls fv (wires.take (wires.length - fut.length)))
    | _ => "bad-op"

/-! ### the specification's expectation of a whole query, from the logical responses alone -/

/-- the view of a page of rows: metadata, row count, warnings, custom payload -/
def specRowsView (r : LResp) (m : Meta) (rs : List (List Cell)) : String :=
  dPageView (viewMeta m) rs.length r.warnings r.payload

/-- the view of a response without rows (void / set keyspace / schema change / error) -/
def specEmptyView (r : LResp) : String := dPageView ResultMeta.zero 0 r.warnings r.payload

def specTrace (rs : List LResp) : String :=
  dTrace (rs.filterMap (fun r => match r.tracing with | some t => if t.length > 0 then some t else none | none => none))

/-- the Scan events of the pages after the first: the first row of a page is preceded by the page's view;
    an empty page in the middle leaves no trace (the application never sees it); the LAST response, when it
    has no rows (an empty last page, an error), shows in the final `false` -/
def specEvents (scanner : Bool) : Bool → List LResp → Option (List String × String)
  | _, [] => none
  | first, r :: more =>
    match r.body with
    | .result (.rows m rs) =>
      (match rs.mapM (expectRow (colTypes m.cols)) with
       | none => none
       | some rows =>
         let pre := if scanner || first then "" else "PG(" ++ specRowsView r m rs ++ ")>"
         let evs := match rows.map dExpectScan with
           | [] => []
           | e :: es => (pre ++ e) :: es
         match more with
         | [] =>
           if m.paging.isSome then none
           else some (evs ++ (if scanner then [] else [(if rows.isEmpty then pre else "") ++ "$"]), "nil")
         | _ :: _ =>
           if m.paging.isNone || m.paging == some [] then none
           else match specEvents scanner false more with
             | none => none
             | some (evs', e) => some (evs ++ evs', e))
    | .error msg e =>
      (match more, e with
       | _ :: _, _ => none
       | [], .unprepared _ => none
       | [], e => some ((if scanner then [] else ["PG(" ++ specEmptyView r ++ ")>$"]),
           s!"E({e.code},{toHex msg},{dErr (viewErr e)})"))
    | _ => none

def sameShape (scanner : Bool) (ms : List Meta) : Bool :=
  match ms with
  | [] => true
  | m :: rest => rest.all (fun m' => totalWidthOf m' == totalWidthOf m && (!scanner || (colTypes m'.cols).length == (colTypes m.cols).length))
where totalWidthOf (m : Meta) : Nat := ((colTypes m.cols).map destWidth).sum

def rowsMetas (rs : List LResp) : List Meta :=
  rs.filterMap (fun r => match r.body with | .result (.rows m _) => some m | _ => none)

/-- expected answer of a `pages` op -/
def pagesSpec (api : String) (rs : List LResp) : Option String :=
  let scanner := api == "scanner"
  if api != "scan" && api != "scanner" then none
  else if !(sameShape scanner (rowsMetas rs)) then none
  else if (rowsMetas rs).any (fun m => match m.cols with | .omitted _ _ => true | _ => false) then none
  else
  match rs with
  | [] => none
  | r :: more =>
    let tail (evs : List String) (e : String) : String :=
      if scanner then " rows:[" ++ "|".intercalate evs ++ "] done end:" ++ e ++ " " ++ specTrace rs
      else " rows:[" ++ "|".intercalate evs ++ "] end:" ++ e ++ " " ++ specTrace rs
    match r.body with
    | .result (.rows m rows) =>
      -- the first page is not entered through a switch: its view is P0, its first event carries no prefix
      (match specEvents scanner true (r :: more) with
       | none => none
       | some (evs, e) => some ("ok P0(" ++ specRowsView r m rows ++ ")" ++ tail evs e))
    | .result .void | .result (.setKeyspace _) | .result (.schemaChange _) =>
      if more.isEmpty then some ("ok P0(" ++ specEmptyView r ++ ")" ++ tail (if scanner then [] else ["$"]) "nil") else none
    | .error msg e =>
      (match more, e with
       | _ :: _, _ => none
       | [], .unprepared _ => none
       | [], e => some ("ok P0(" ++ specEmptyView r ++ ")" ++ tail (if scanner then [] else ["$"]) s!"E({e.code},{toHex msg},{dErr (viewErr e)})"))
    | _ => none


/-! ### the one-row conveniences -/

open Paged in
def dQErr : QErr → String
  | .nil => "nil"
  | .notFound => "notfound"
  | .iter e => dIterErr (some e)

open Rows Paged in
/-- `qone <api> <fv> <ndests> <logical response> WIRE <wire>` -/
def qoneModel (api : String) (fv nd : Nat) (wires : List FrameRead.Bytes) : String :=
  match (execute fv true wires).bind (fun x => skipEmpty fv true x.2 x.1) with
  | none => "crash:go"
  | some (q, _) =>
    match api with
    | "scan" =>
      (match queryScan q (List.replicate nd true) with
       | none => "crash:go"
       | some (calls, e) => "ok rows:[" ++ dCalls calls ++ "] end:" ++ dQErr e)
    | "mapscan" =>
      (match queryMapScan q with
       | none => "crash:go"
       | some (m, e) => "ok map:" ++ dMap (m.map (fun kv => (kv.1, toHex kv.2))) ++ " end:" ++ dQErr e)
    | "scancas" =>
      (match scanCAS q nd with
       | none => "crash:go"
       | some (a, calls, e) => s!"ok applied:{a} rows:[" ++ dCalls calls ++ "] end:" ++ dQErr e)
    | "mapscancas" =>
      (match mapScanCAS q with
       | none => "crash:go"
       | some (a, m, e) => s!"ok applied:{a} map:" ++ dMap (m.map (fun kv => (kv.1, toHex kv.2))) ++ " end:" ++ dQErr e)
    | _ => "bad-op"

/-- the wire frames of an op line: every token that follows a `WIRE` token -/
def wiresAfter : List String → Option (List FrameRead.Bytes)
  | [] => some []
  | "WIRE" :: w :: rest => (match parseHex w, wiresAfter rest with
    | some b, some l => some (b :: l)
    | _, _ => none)
  | _ :: rest => wiresAfter rest

def tPages : TP (List (Nat × LResp × FrameRead.Bytes)) := do
  let k ← tNat
  tMany (do
    let (v, r) ← tResp
    let sep ← tok
    if sep != "WIRE" then failure
    let w ← tHex
    pure (v, r, w)) k

/-! ## ops -/

def parseLogical (ws : List String) : Option (Nat × LResp × FrameRead.Bytes) :=
  match tResp.run ws with
  | some ((v, r), [w]) => match parseHex w with
    | some wire => some (v, r, wire)
    | none => none
  | _ => none

/-- spec-backed response op: the answer is the model's parse of the SPECIFICATION's encoding -/
def respSpec (fv : Nat) (ws : List String) : String :=
  match parseLogical ws with
  | none => "bad-op"
  | some (v, r, wire) =>
    if fv != v then "bad-op: framer version must equal the response version"
    else if !(wf v r) then "not-wf"
    else if encodeFrame v r != wire then "spec-encoder-mismatch " ++ toHex (encodeFrame v r)
    else dOutcome (hdr v r) (parseResp fv (hdr v r) (encodeBody v r))

def step (_ : Unit) (ws : List String) : Unit × String :=
  ((), match ws with
  | "resp" :: fv :: rest => (match fv.toNat? with | some fv => respSpec fv rest | none => "bad-op")
  | "comp" :: fv :: rest => (match fv.toNat? with | some fv => respSpec fv rest | none => "bad-op")
  | "respx" :: fv :: rest =>
    (match fv.toNat?, rest.getLast?.bind parseHex with
     | some fv, some wire => onWire fv wire
     | _, _ => "bad-op")
  | ["raw", fv, ver, fl, op, stream, body] =>
    (match fv.toNat?, ver.toNat?, fl.toNat?, op.toNat?, stream.toInt?, parseHex body with
     | some fv, some ver, some fl, some op, some stream, some body =>
       let h : Header := { version := UInt8.ofNat ver, flags := UInt8.ofNat fl, stream := stream, op := UInt8.ofNat op, length := body.length }
       dOutcome h (parseResp fv h body)
     | _, _, _, _, _, _ => "bad-op")
  | "rowsx" :: api :: pat :: fv :: rest =>
    (match fv.toNat?, rest.getLast?.bind parseHex with
     | some fv, some wire => rowsModel api pat fv wire
     | _, _ => "bad-op")
  | "rows" :: api :: pat :: fv :: rest =>
    (match fv.toNat?, parseLogical rest with
     | some fv, some (v, r, wire) =>
       if fv != v || pat != "A" then "bad-op"
       else if !(wf v r) then "not-wf"
       else if encodeFrame v r != wire then "spec-encoder-mismatch " ++ toHex (encodeFrame v r)
       else
         let m := rowsModel api pat fv wire
         match rowsSpec api v r with
         | none => "not-wf-rows"
         | some s => if s == m then m else "MODEL-SPEC-MISMATCH model=" ++ m ++ " spec=" ++ s
     | _, _ => "bad-op")
  | "reusex" :: api :: init :: fv :: rest =>
    (match fv.toNat?, parseDests rest with
     | some fv, some (tys, rest') =>
       (match rest'.getLast?.bind parseHex with
        | some wire => reuseModel api init fv tys wire
        | none => "bad-op")
     | _, _ => "bad-op")
  | "reuse" :: api :: init :: fv :: rest =>
    (match fv.toNat?, parseDests rest with
     | some fv, some (tys, rest') =>
       (match parseLogical rest' with
        | some (v, r, wire) =>
          if fv != v then "bad-op"
          else if !(wf v r) then "not-wf"
          else if encodeFrame v r != wire then "spec-encoder-mismatch " ++ toHex (encodeFrame v r)
          else
            let m := reuseModel api init fv tys wire
            match reuseSpec api v r tys with
            | none => "not-wf-rows"
            | some s => if s == m then m else "MODEL-SPEC-MISMATCH model=" ++ m ++ " spec=" ++ s
        | none => "bad-op")
     | _, _ => "bad-op")
  | "skipx" :: fv :: rest =>
    (match fv.toNat?, tSkip.run rest with
     | some fv, some ((_, _, w1, _, _, w2), []) => skipModel fv w1 w2
     | _, _ => "bad-op")
  | "skip" :: fv :: rest =>
    (match fv.toNat?, tSkip.run rest with
     | some fv, some ((v1, r1, w1, v2, r2, w2), []) =>
       if fv != v1 || fv != v2 then "bad-op"
       else if !(wf v1 r1 && wf v2 r2) then "not-wf"
       else if encodeFrame v1 r1 != w1 || encodeFrame v2 r2 != w2 then "spec-encoder-mismatch"
       else
         let m := skipModel fv w1 w2
         match skipSpec r1 r2 with
         | none => "not-wf-skip"
         | some s => if s == m then m else "MODEL-SPEC-MISMATCH model=" ++ m ++ " spec=" ++ s
     | _, _ => "bad-op")
  | "pagesx" :: api :: fv :: _prefetch :: rest =>
    (match fv.toNat?, tPages.run rest with
     | some fv, some (ps, []) => pagesModel api fv (ps.map (·.2.2))
     | _, _ => "bad-op")
  | "pages" :: api :: fv :: _prefetch :: rest =>
    (match fv.toNat?, tPages.run rest with
     | some fv, some (ps, []) =>
       if ps.any (fun p => p.1 != fv) then "bad-op"
       else if !(ps.all (fun p => wf p.1 p.2.1)) then "not-wf"
       else if ps.any (fun p => encodeFrame p.1 p.2.1 != p.2.2) then "spec-encoder-mismatch"
       else
         let m := pagesModel api fv (ps.map (·.2.2))
         match pagesSpec api (ps.map (·.2.1)) with
         | none => "not-wf-pages"
         | some s => if s == m then m else "MODEL-SPEC-MISMATCH model=" ++ m ++ " spec=" ++ s
     | _, _ => "bad-op")
  | "pagesn" :: api :: fv :: _prefetch :: rest =>
    (match fv.toNat?, tPages.run rest with
     | some fv, some (ps, []) =>
       if ps.any (fun p => p.1 != fv) then "bad-op"
       else if !(ps.all (fun p => wf p.1 p.2.1)) then "not-wf"
       else if ps.any (fun p => encodeFrame p.1 p.2.1 != p.2.2) then "spec-encoder-mismatch"
       else
         let m := pagesModel api fv (ps.map (·.2.2))
         match pagesSpec api (ps.map (·.2.1)) with
         | none => "not-wf-pages"
         | some s => if s == m then m else "MODEL-SPEC-MISMATCH model=" ++ m ++ " spec=" ++ s
     | _, _ => "bad-op")
  | "qone" :: api :: fv :: nd :: rest =>
    (match fv.toNat?, nd.toNat?, wiresAfter rest with
     | some fv, some nd, some wires => qoneModel api fv nd wires
     | _, _, _ => "bad-op")
  | _ => "bad-op")

def init : Unit := ()
end Driver.C04
