import Model.Paging
import Driver.Util
namespace Driver.C15
open Util Paging

/-! ## `iter` op (Iter level): pages `;`-separated, rows `,`-separated ints, `E` = failed fetch,
    `-` = empty page; an optional `@p` suffix gives the prefetch position (ignored by the functional
    model: it only moves the fetch) -/
def parsePage (s : String) : Option (Option (List Int)) :=
  let body := (s.splitOn "@").headD ""
  if body == "E" then some none
  else if body == "-" || body == "" then some (some [])
  else ((body.splitOn ",").mapM (fun (x : String) => x.toInt?)).map some

def parsePages (s : String) : Option (List (Option (List Int))) := (s.splitOn ";").mapM parsePage

def showRows (l : List Int) : String := if l.isEmpty then "-" else ",".intercalate (l.map toString)

/-- the chain built by the hook: every page but the last has a next page -/
def chainScript : List (Option (List Int)) → List Reply
  | [] => []
  | [some r] => [.page r none]
  | some r :: rest => .page r (some [1]) :: chainScript rest
  | none :: _ => [.fail (.srv 0)]

/-- expected facts about the source (checked on the AST by the harness) -/
def astExpect : String :=
  "more-pages-guard=true copies-query=true page-state-from-response=true newqry-assignments=2 next-iter=true pos-clamp=true request-carries-state=true manual-disables-auto=true fetch-once=true async-once=true scan-switches=true scanner-switches=true"

/-! ## `sess` / `sessx` op (session level):
    `sess v<n> <consumer> <prefetch> <pagesize> <q|x|xs> <first> <script>` -/

def parseRows (s : String) : Option (List Int) :=
  if s == "-" then some [] else (s.splitOn ",").mapM (fun (x : String) => x.toInt?)

def parseState (s : String) : Option (Option Bytes) :=
  if s == "." then some none else (parseHex s).map some

def parseReply (s : String) : Option Reply :=
  if s == "Eu" then some .unprepared
  else if s == "Ec" then some (.fail .closed)
  else if s == "Et" then some (.fail .timeout)
  else if s == "Ex" then some (.fail .ctx)
  else if s.startsWith "Es" then
    match parseHex (s.drop 2).toString with
    | some [a, b] => some (.fail (.srv (a.toNat * 256 + b.toNat)))
    | _ => none
  else match s.splitOn ":" with
    | [r, st] => do
      let rows ← parseRows r
      let state ← parseState st
      pure (.page rows state)
    | _ => none

def parseScript (s : String) : Option (List Reply) := (s.splitOn ";").mapM parseReply

def hex4 (n : Nat) : String := toHex [UInt8.ofNat (n / 256), UInt8.ofNat (n % 256)]

def showFail : Option Fail → String
  | none => "nil"
  | some (.srv c) => "srv:" ++ hex4 c
  | some .closed => "closed"
  | some .timeout => "timeout"
  | some .ctx => "ctx"
  | some .exhausted => "exhausted"

def showReq (ident0 : Nat) : Req → String
  | .prepare => "P"
  | .exec ident execute skip st ps =>
    (if execute then (if skip then "Xs" else "X") else "Q") ++ (if ident == ident0 then "=" else "!") ++ ":" ++
    (match st with | none => "." | some b => toHex b) ++ ":" ++
    (match ps with | none => "." | some n => toString n)

def showReqs (ident0 : Nat) (l : List Req) : String :=
  if l.isEmpty then "-" else ",".intercalate (l.map (showReq ident0))

/-- prefetch values the harness uses, as quarters: the threshold `int((1 - prefetch) * numRows)` is
    exact for these (dyadic) -/
def prefetchPos (pf : String) (n : Nat) : Nat :=
  let k : Int := if pf == "0" then 0 else if pf == "0.25" then 1 else if pf == "0.5" then 2
    else if pf == "1" then 4 else if pf == "1.5" then 6 else if pf == "-1" then -4 else 1
  (((4 - k) * (n : Int)) / 4).toNat

def sessAnswer (ver consumer pf ps kind first script : String) : String :=
  match ps.toInt?, parseState first, parseScript script with
  | some pageSize, some fst, some sc =>
    if !(kind == "q" || kind == "x" || kind == "xs" || kind == "xd") then "bad-op" else
    let manualC := consumer == "manual"
    let q : Qry := { ident := 1, prepared := kind != "q", skipMeta := kind == "xs", pageSize := pageSize,
                     pageState := if manualC then fst.getD [] else [], disableAutoPage := manualC }
    let pp := prefetchPos pf
    let o := if manualC then manual pp sc false q else run pp sc false q
    let rows := if consumer == "slicemap" && o.err.isSome then "nil" else showRows o.rows
    -- several nodes (`v4n2`): which node still needs a PREPARE depends on the host selection order; the harness does not log PREPAREs then
    let reqs := if (ver.splitOn "n").length > 1 then o.reqs.filter Req.isExec else o.reqs
    s!"rows={rows} err={showFail o.err} reqs={showReqs 1 reqs}"
  | _, _, _ => "bad-op"

def step (_ : Unit) (ws : List String) : Unit × String :=
  ((), match ws with
  | ["iter", consumer, pages] =>
    match parsePages pages with
    | none => "bad-op"
    | some ps =>
      let q : Qry := { ident := 1, prepared := false, skipMeta := false, pageSize := 0, pageState := [], disableAutoPage := false }
      let o := run (fun _ => 0) (chainScript ps) false q
      let err := if o.err.isSome then "fetch failed" else "nil"
      if consumer == "slicemap" && o.err.isSome then s!"rows=nil err={err}"
      else s!"rows={showRows o.rows} err={err}"
  | ["ast", "paging"] => astExpect
  | ["sess", ver, consumer, pf, ps, kind, first, script] => sessAnswer ver consumer pf ps kind first script
  | ["sessx", ver, consumer, pf, ps, kind, first, script] => sessAnswer ver consumer pf ps kind first script
  | _ => "bad-op")

def init : Unit := ()
end Driver.C15
