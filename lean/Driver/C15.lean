import Model.Paging
import Model.PagingHist
import Model.PagingRetry
import Model.PagingWalk
import Model.PagingFirst
import Model.PagingPrep
import Driver.Util
namespace Driver.C15
open Util Paging

/-! ## `iter` op (Iter level): pages `;`-separated, rows `,`-separated ints, `E` = failed fetch,
    `-` = empty page; an optional `@p` suffix gives the prefetch position (ignored by the functional
    model: it only moves the fetch) -/
def parsePage (s : String) : Option (Option (List Int)) :=
  let body := (s.splitOn "@").headD ""
  if body == "E" then some none
  else if body == "-" || body == "" then some (some [])
  else ((body.splitOn ",").mapM (fun (x : String) => x.toInt?)).map some

def parsePages (s : String) : Option (List (Option (List Int))) := (s.splitOn ";").mapM parsePage

def showRows (l : List Int) : String := if l.isEmpty then "-" else ",".intercalate (l.map toString)

/-- the chain built by the hook: every page but the last has a next page -/
def chainScript : List (Option (List Int)) → List Reply
  | [] => []
  | [some r] => [.page r none]
  | some r :: rest => .page r (some [1]) :: chainScript rest
  | none :: _ => [.fail (.srv 0)]

/-- expected facts about the source (checked on the AST by the harness) -/
def astExpect : String :=
  "more-pages-guard=true copies-query=true page-state-from-response=true newqry-assignments=2 next-iter=true pos-clamp=true request-carries-state=true manual-disables-auto=true fetch-once=true async-once=true scan-switches=true scanner-switches=true"

/-! ## `sess` / `sessx` op (session level):
    `sess v<n> <consumer> <prefetch> <pagesize> <q|x|xs> <first> <script>` -/

def parseRows (s : String) : Option (List Int) :=
  if s == "-" then some [] else (s.splitOn ",").mapM (fun (x : String) => x.toInt?)

def parseState (s : String) : Option (Option Bytes) :=
  if s == "." then some none else (parseHex s).map some

def parseReply (s : String) : Option Reply :=
  if s == "Eu" then some .unprepared
  else if s == "Ec" then some (.fail .closed)
  else if s == "Et" then some (.fail .timeout)
  else if s == "Ex" then some (.fail .ctx)
  else if s.startsWith "Es" then
    match parseHex (s.drop 2).toString with
    | some [a, b] => some (.fail (.srv (a.toNat * 256 + b.toNat)))
    | _ => none
  else match s.splitOn ":" with
    | [r, st] => do
      let rows ← parseRows r
      let state ← parseState st
      pure (.page rows state)
    | _ => none

def parseScript (s : String) : Option (List Reply) := (s.splitOn ";").mapM parseReply

def hex4 (n : Nat) : String := toHex [UInt8.ofNat (n / 256), UInt8.ofNat (n % 256)]

def showFail : Option Fail → String
  | none => "nil"
  | some (.srv c) => "srv:" ++ hex4 c
  | some .closed => "closed"
  | some .timeout => "timeout"
  | some .ctx => "ctx"
  | some .exhausted => "exhausted"
  | some .unknownRetry => "unknownrt"

def showReq (ident0 : Nat) : Req → String
  | .prepare => "P"
  | .exec ident execute skip st ps =>
    (if execute then (if skip then "Xs" else "X") else "Q") ++ (if ident == ident0 then "=" else "!") ++ ":" ++
    (match st with | none => "." | some b => toHex b) ++ ":" ++
    (match ps with | none => "." | some n => toString n)

def showReqs (ident0 : Nat) (l : List Req) : String :=
  if l.isEmpty then "-" else ",".intercalate (l.map (showReq ident0))

/-- prefetch values the harness uses, as quarters: the threshold `int((1 - prefetch) * numRows)` is
    exact for these (dyadic) -/
def prefetchPos (pf : String) (n : Nat) : Nat :=
  let k : Int := if pf == "0" then 0 else if pf == "0.25" then 1 else if pf == "0.5" then 2
    else if pf == "1" then 4 else if pf == "1.5" then 6 else if pf == "-1" then -4 else 1
  (((4 - k) * (n : Int)) / 4).toNat

def sessAnswer (ver consumer pf ps kind first script : String) : String :=
  match ps.toInt?, parseState first, parseScript script with
  | some pageSize, some fst, some sc =>
    if !(kind == "q" || kind == "x" || kind == "xs" || kind == "xd") then "bad-op" else
    let manualC := consumer == "manual"
    let q : Qry := { ident := 1, prepared := kind != "q", skipMeta := kind == "xs", pageSize := pageSize,
                     pageState := if manualC then fst.getD [] else [], disableAutoPage := manualC }
    let pp := prefetchPos pf
    let o := if manualC then manual pp sc false q else run pp sc false q
    let rows := if consumer == "slicemap" && o.err.isSome then "nil" else showRows o.rows
    -- several nodes (`v4n2`): which node still needs a PREPARE depends on the host selection order; the harness does not log PREPAREs then
    let reqs := if (ver.splitOn "n").length > 1 then o.reqs.filter Req.isExec else o.reqs
    s!"rows={rows} err={showFail o.err} reqs={showReqs 1 reqs}"
  | _, _, _ => "bad-op"


/-! ## `rsess` / `rsessx` op (retry tier: faults at page fetches × retry decisions):
    `rsess v<n>[n<nodes>] <consumer> <prefetch> <pagesize> <q|x|xs|xd> <first> <policy> <script>`
    script entries as for `sess`, a failure may carry `/<d>` = the scripted policy's answer for that failed
    attempt (s stop = Attempt false, r Retry, n RetryNextHost, i Ignore, t Rethrow, u an unknown RetryType);
    `V` = a RESULT of kind void.  policy: none | scr | b<k> | simple<k> | down<k>, optional prefix `C`
    (set on the ClusterConfig instead of the Query). -/

def parseDec (s : String) : Option PagingRetry.Dec :=
  if s == "s" then some .stop else if s == "r" then some .retry else if s == "n" then some .nextHost
  else if s == "i" then some .ignore else if s == "t" then some .rethrow else if s == "u" then some .unknown else none

def parseRReply (s : String) : Option PagingRetry.RReply :=
  if s == "V" then some .void else
  match s.splitOn "/" with
  | [a] => (parseReply a).map PagingRetry.emb
  | [a, d] =>
    match parseReply a, parseDec d with
    | some (.fail f), some dd => some (.fail f dd)
    | _, _ => none
  | _ => none

def parsePolicy (s : String) : Option (Option PagingRetry.Policy) :=
  let t := if s.startsWith "C" then (s.drop 1).toString else s
  if t == "none" then some none
  else if t == "scr" then some (some (PagingRetry.scripted none))
  else if t.startsWith "simple" then (t.drop 6).toString.toNat?.map fun k => some (PagingRetry.simple k)
  else if t.startsWith "down" then (t.drop 4).toString.toNat?.map fun k => some (PagingRetry.downgrading k)
  else if t.startsWith "b" then (t.drop 1).toString.toNat?.map fun k => some (PagingRetry.scripted (some k))
  else none

def showAtts (l : List Nat) : String := if l.isEmpty then "-" else ",".intercalate (l.map toString)

def rsessAnswer (ver consumer ps kind first policy script : String) : String :=
  let vparts := ((ver.drop 1).toString).splitOn "n"
  let nodes := match vparts with | [_, n] => n.toNat?.getD 0 | _ => 1
  match ps.toInt?, parseState first, (script.splitOn ";").mapM parseRReply, parsePolicy policy with
  | some pageSize, some fst, some sc, some pol =>
    if !(kind == "q" || kind == "x" || kind == "xs" || kind == "xd") || nodes < 1 || nodes > 8 then "bad-op" else
    let manualC := consumer == "manual"
    let q : Qry := { ident := 1, prepared := kind != "q", skipMeta := kind == "xs", pageSize := pageSize,
                     pageState := if manualC then fst.getD [] else [], disableAutoPage := manualC }
    -- beyond the script the node answers every request with `script exhausted`
    let sc := sc ++ List.replicate 12 (.fail .exhausted .stop)
    let o := PagingRetry.runR pol nodes q manualC sc false 0 (nodes - 1) q
    let rows := if consumer == "slicemap" && o.err.isSome then "nil" else showRows o.rows
    let reqs := if nodes > 1 then o.reqs.filter Req.isExec else o.reqs
    s!"rows={rows} err={showFail o.err} reqs={showReqs 1 reqs} att={showAtts o.atts}"
  | _, _, _, _ => "bad-op"


/-! ## `hist` op (one Query object, a history of setters / Iter() / Scan / cancel; keyed node):
    `hist v<n>[n<nodes>] <q|x|xs> <consumer> <key>=<script>|... <steps>` — see harness/cmd/c15/hist.go -/

/-- the options that every request of a snapshot carries verbatim, as the node decodes them -/
structure HAttr where
  key : Nat := 0
  cons : Nat := 1
  serial : Nat := 0
  ts : Option Nat := none
  payload : Nat := 0
  trace : Bool := false
  obs : Bool := false

/-- `k..c..s..` | `t..p..r..` | observer | key -/
def attrStr (kindQ : Bool) (ver : Nat) (a : HAttr) : String :=
  let k := if kindQ then "k-" else s!"k{a.key}"
  let sr := if a.serial == 0 then "-" else toString a.serial
  let t := if ver < 3 then "-" else match a.ts with | none => "*" | some 0 => "-" | some n => toString n
  let p := if a.payload == 0 then "-" else "p" ++ toHex [UInt8.ofNat a.payload]
  s!"{k}.c{a.cons}.s{sr}|t{t}.p{p}.r{if a.trace then 1 else 0}|{if a.obs then "o1" else "o0"}|{if kindQ then 0 else a.key}"

def intern (tbl : List String) (s : String) : List String × Nat :=
  match tbl.findIdx? (· == s) with
  | some i => (tbl, i)
  | none => (tbl ++ [s], tbl.length)

def identParts (tbl : List String) (ident : Nat) : List String := (tbl.getD ident "").splitOn "|"

def keyOfIdent (tbl : List String) (ident : Nat) : Nat :=
  match identParts tbl ident with
  | [_, _, _, k] => k.toNat?.getD 0
  | _ => 0

abbrev Scripts := List (Nat × List Reply)
abbrev States := List (Bytes × Nat × Nat)   -- paging state ↦ (key, index of the page it asks for)

def statesOf (scripts : Scripts) : States :=
  scripts.flatMap fun (k, sc) =>
    (List.range sc.length).filterMap fun i =>
      match (sc[i]? : Option Reply) with
      | some (Reply.page _ (some st)) => some (st, k, i + 1)
      | _ => none

def statesOk (sts : States) : Bool :=
  sts.all (fun x => !x.1.isEmpty) &&
  (List.range sts.length).all fun i => (List.range sts.length).all fun j =>
    i == j || (sts[i]?.map (·.1)) != (sts[j]?.map (·.1))

/-- the keyed node: replies to the chain that starts with (ident, state) -/
def srvOf (scripts : Scripts) (sts : States) (tbl : List String) (ident : Nat) (st : Bytes) : List Reply :=
  let key := keyOfIdent tbl ident
  match scripts.lookup key with
  | none => [.fail (.srv 0x2200)]
  | some sc =>
    if st.isEmpty then sc else
    match sts.find? (fun (x : Bytes × Nat × Nat) => x.1 == st) with
    | some (_, k, idx) => if k == key then sc.drop idx else [.fail (.srv 0x2200)]
    | none => [.fail (.srv 0x2200)]

def showHReq (sts : States) (tbl : List String) : Req → Option String
  | .prepare => none
  | .exec ident execute skip st ps =>
    match identParts tbl ident with
    | [a, b, _, k] =>
      let name := if execute then (if skip then "Xs" else "X") else "Q"
      let z := match ps with | none => "-" | some n => toString n
      let pg := match st with
        | none => "0"
        | some s => match sts.find? (fun (x : Bytes × Nat × Nat) => x.1 == s) with
          | some (_, k', idx) => if toString k' == k then toString idx else "?" ++ toHex s
          | none => "?" ++ toHex s
      some s!"{name}.{a}.z{z}.{b}@{pg}"
    | _ => some "?"

def insertStr (s : String) : List String → List String
  | [] => [s]
  | x :: xs => if s ≤ x then s :: x :: xs else x :: insertStr s xs

def sortStrs (l : List String) : List String := l.foldr insertStr []

def groupCounts : List String → List (String × Nat)
  | [] => []
  | x :: xs =>
    match groupCounts xs with
    | (y, n) :: r => if x == y then (y, n + 1) :: r else (x, 1) :: (y, n) :: r
    | [] => [(x, 1)]

def multiset (l : List String) (counts : Bool) : String :=
  if l.isEmpty then "-" else
  ",".intercalate ((groupCounts (sortStrs l)).map fun (s, n) => if counts then s!"{s}*{n}" else s)

def ppOfQ (q : Int) (n : Nat) : Nat := (((4 - q) * (n : Int)) / 4).toNat

structure HRec where
  done : Bool := false
  nilr : Bool := false
  keep : Option Nat := none     -- SliceMap ended with an error: only the rows delivered before the drain remain

structure HSt where
  w : Hist.World
  tbl : List String
  attr : HAttr
  recs : List HRec := []
  specShort : Bool := false

def defaultQry (kind : String) (ident : Nat) : Qry :=
  { ident := ident, prepared := kind != "q", skipMeta := kind == "xs", pageSize := 5000, pageState := [], disableAutoPage := false }

def ctxOf (s : String) : Option (Option Nat) :=
  match s.toNat? with
  | some 0 => some none
  | some n => some (some n)
  | none => none

def drainN (it : Hist.It) : Nat :=
  let pageRows : Reply → Nat
    | .page r _ => r.length
    | _ => 0
  1 + it.cur.rows.length + (match it.pre with | some p => p.rows.length | none => 0) + (it.rest.map pageRows).sum

def histStep (ver : Nat) (kind consumer : String) (scripts : Scripts) (sts : States) (h : HSt) (tok : String) : Option HSt :=
  let kindQ := kind == "q"
  let run1 (h : HSt) (s : Hist.Step) : HSt :=
    { h with w := Hist.step (srvOf scripts sts h.tbl) ppOfQ h.w s }
  let setAttr (h : HSt) (a : HAttr) (bind : Bool) : HSt :=
    let (tbl, id) := intern h.tbl (attrStr kindQ ver a)
    run1 { h with tbl := tbl, attr := a } (if bind then .bind id else .setIdent id)
  match tok.toList with
  | [] => none
  | c :: rest =>
    let arg := String.ofList rest
    match c with
    | 'b' => if kindQ then none else arg.toNat?.map fun k => setAttr h { h.attr with key := k } true
    | 'z' => arg.toInt?.map fun n => run1 h (.pageSize n)
    | 'f' => arg.toInt?.map fun n => run1 h (.prefetch n)
    | 'c' => arg.toNat?.bind fun n => if n > 0xffff then none else some (setAttr h { h.attr with cons := n } false)
    | 's' => arg.toNat?.bind fun n => if n > 0xffff then none else some (setAttr h { h.attr with serial := n } false)
    | 't' => arg.toNat?.bind fun n => if n ≥ 1000000 || ver < 3 then none else some (setAttr h { h.attr with ts := some n } false)
    | 'p' => arg.toNat?.bind fun n => if n > 255 || ver < 4 then none else some (setAttr h { h.attr with payload := n } false)
    | 'r' => if arg == "0" || arg == "1" then some (setAttr h { h.attr with trace := arg == "1" } false) else none
    | 'o' => if arg == "0" || arg == "1" then some (setAttr h { h.attr with obs := arg == "1" } false) else none
    | 'y' => if arg == "-" || arg.toNat?.isSome then some h else none
    | 'i' => if arg == "0" || arg == "1" then some (run1 h (.idem (arg == "1"))) else none
    | 'e' =>
      match rest.reverse with
      | m :: ds =>
        match (String.ofList ds.reverse).toNat? with
        | some a =>
          if a > 4 || ds.isEmpty || !(m == 'l' || m == 's') then none
          else some (run1 { h with specShort := h.specShort || (m == 's' && a > 0) } (.spec a))
        | none => none
      | [] => none
    | 'g' =>
      if arg == "." then some (run1 h (.pageState []))
      else match parseHex arg with
        | some b => if b.isEmpty then none else some (run1 h (.pageState b))
        | none => none
    | 'n' => if arg == "" then some (run1 h .noSkipMeta) else none
    | 'w' =>
      let id := if arg.startsWith "d" then String.ofList (rest.drop 1) else arg
      (ctxOf id).map fun c => run1 h (.withCtx c)
    | 'x' => arg.toNat?.bind fun n => if n == 0 then none else some (run1 h (.cancel n))
    | 'R' =>
      arg.toNat?.bind fun k =>
        if kindQ && k != 0 then none else
        let a : HAttr := { key := k }
        let (tbl, id) := intern h.tbl (attrStr kindQ ver a)
        some (run1 { h with tbl := tbl, attr := a } (.reset (defaultQry kind id)))
    | 'I' =>
      if arg == "" then some { run1 h (.iter none) with recs := h.recs ++ [{}] }
      else match ctxOf arg with
        | some c => some { run1 h (.iter (some c)) with recs := h.recs ++ [{}] }
        | none => none
    | 'S' =>
      match arg.splitOn "." with
      | [a, b] =>
        match a.toNat?, b.toNat?, (a.toNat?.bind fun i => h.recs[i]?) with
        | some i, some n, some r => if r.done then none else some (run1 h (.scan i n))
        | _, _, _ => none
      | _ => none
    | 'D' =>
      match arg.toNat? with
      | some i =>
        match h.recs[i]?, h.w.its[i]? with
        | some r, some it =>
          if r.done then none else
          let h1 := run1 h (.scan i (drainN it))
          let failed := match h1.w.its[i]? with | some it1 => it1.cur.err.isSome | none => false
          let r1 : HRec := if consumer == "slicemap" && failed then { done := true, nilr := true, keep := some it.out.length } else { r with done := true }
          some { h1 with recs := h1.recs.set i r1 }
        | _, _ => none
      | none => none
    | _ => none

def histFold (ver : Nat) (kind consumer : String) (scripts : Scripts) (sts : States) : HSt → List String → Option HSt
  | h, [] => some h
  | h, t :: ts => match histStep ver kind consumer scripts sts h t with
    | some h1 => histFold ver kind consumer scripts sts h1 ts
    | none => none

def parseKeyed (s : String) : Option Scripts :=
  (s.splitOn "|").mapM fun ks =>
    match ks.splitOn "=" with
    | [k, sc] => do
      let key ← k.toNat?
      let script ← parseScript sc
      if script.all (fun r => match r with | .page .. => true | .fail (.srv _) => true | _ => false) then pure (key, script) else none
    | _ => none

def histAnswer (vn0 kind consumer scriptsS stepsS : String) : String :=
  -- `z<bits>` (snappy negotiated, which answers carry the compression flag) does not change any answer
  let vn := (vn0.splitOn "z").headD vn0
  let vparts := ((vn.drop 1).toString).splitOn "n"
  let nodes := match vparts with | [_, n] => n.toNat?.getD 0 | _ => 1
  match vparts.head?.bind (·.toNat?), parseKeyed scriptsS with
  | some ver, some scripts =>
    let sts := statesOf scripts
    let keys := scripts.map (·.1)
    if ver < 2 || ver > 5 || nodes < 1 || nodes > 8 || !(vn.startsWith "v") then "bad-op"
    else if !(kind == "q" || kind == "x" || kind == "xs") then "bad-op"
    else if !(consumer == "scan" || consumer == "scanner" || consumer == "mapscan" || consumer == "slicemap") then "bad-op"
    else if !statesOk sts || keys.eraseDups.length != keys.length then "bad-op"
    else
    let kindQ := kind == "q"
    let a0 : HAttr := {}
    let (tbl, id) := intern [] (attrStr kindQ ver a0)
    let h0 : HSt := { w := { obj := defaultQry kind id, its := [], env := { cancelled := [], execs := 0, cached := false } }, tbl := tbl, attr := a0 }
    match histFold ver kind consumer scripts sts h0 (stepsS.splitOn ",") with
    | none => "bad-op"
    | some h =>
      if h.recs.any (fun r => !r.done) then "bad-op" else
      let its := h.w.its.zip h.recs
      let itStrs := (List.range its.length).zip its |>.map fun (i, it, r) =>
        let rows := match r.keep with | some k => it.out.take k | none => it.out
        s!"it{i}={showRows rows}{if r.nilr then "!nil" else ""}/{showFail it.cur.err}"
      let itsS := if itStrs.isEmpty then "-" else ";".intercalate itStrs
      let reqs := h.w.its.flatMap fun it => it.reqs.filterMap (showHReq sts h.tbl)
      let nprep := (h.w.its.flatMap (·.reqs)).countP (fun r => !r.isExec)
      let prep := if nodes == 1 && !h.specShort then toString nprep else "*"
      if h.specShort then s!"{itsS} reqs={multiset reqs false} prep={prep} obs=* tr=*" else
      let obs := h.w.its.flatMap fun it =>
        match identParts h.tbl it.snap.ident with
        | [a, _, o, _] =>
          if o != "o1" then [] else
          let k := ((a.splitOn ".").headD "k?")
          let n := it.reqs.countP Req.isExec
          let answered := (List.range n).map fun j =>
            match (it.script[j]? : Option Reply) with
            | some (Reply.page r _) => s!"{k}:{r.length}:nil"
            | some (Reply.fail f) => s!"{k}:0:{showFail (some f)}"
            | some Reply.unprepared => s!"{k}:0:unprepared"
            | none => s!"{k}:0:exhausted"
          answered ++ (if it.cur.err == some Fail.ctx then [s!"{k}:0:ctx"] else [])
        | _ => []
      let tr := (h.w.its.map fun it =>
        match identParts h.tbl it.snap.ident with
        | [_, b, _, _] => if b.endsWith "r1" then it.reqs.countP Req.isExec else 0
        | _ => 0).sum
      s!"{itsS} reqs={multiset reqs true} prep={prep} obs={multiset obs true} tr={tr}"
  | _, _ => "bad-op"

/-! ## `walk` op (walk tier: an application consumes ONE iterator step by step and may abandon it):
    `walk v<n> <scan|mapscan|scanner> <prefetch> <pagesize> <q|x|xs|xd> <script> <steps>`
    steps `,`-separated: `s<k>` k single calls (Scan / MapScan / Scanner.Next) stopping at the first false,
    `o` NumRows/WillSwitchPage/PageState, `a` probe + await the asynchronous prefetch, `d` drain with the
    consumer, `D` drain with SliceMap. After the last step: Close / Err, a running prefetch is awaited, then
    the node's request log is read. -/

def walkObs (w : Walk.W) : String :=
  let st := Walk.pageState w
  s!"o={Walk.numRows w}/{if Walk.willSwitch w then 1 else 0}/{if st.isEmpty then "." else toHex st}"

/-- state, observations so far, SliceMap returned (nil, err) -/
def walkStep (ppOf : Int → Nat → Nat) (api : Walk.Api) (acc : Walk.W × List String × Bool) (tok : String) :
    Option (Walk.W × List String × Bool) :=
  let (w, obs, nilr) := acc
  if nilr then none else
  match tok.toList with
  | 's' :: rest =>
    (String.ofList rest).toNat?.map fun k =>
      let r := Walk.scanK ppOf api k w
      let got := r.1.it.out.drop w.it.out.length
      (r.1, obs ++ [s!"s={showRows got}/{if r.2 then "T" else "F"}"], false)
  | ['o'] => some (w, obs ++ [walkObs w], false)
  | ['a'] => let r := Walk.await ppOf w; some (r.1, obs ++ [s!"a{r.2}"], false)
  | ['m'] =>
    -- the caller overwrites (flips every byte of) the slice PageState() returned: PageState() hands out the Iter's own
    -- slice, so a later PageState() of the SAME page shows the caller's bytes; nothing else of the driver changes — in
    -- particular not the next-page query's copy (`newQry.pageState = copyBytes(…)`), i.e. not the requests
    let flipped := w.it.cur.pagingState.map (fun b => b ^^^ 0xff)
    some ({ w with it := { w.it with cur := { w.it.cur with pagingState := flipped } } }, obs ++ ["m"], false)
  | ['x'] => some (Walk.stepX ppOf w (.cancel 1), obs ++ ["x"], false)   -- the caller cancels the query's context (op walkc only)
  | ['d'] =>
    let r := Walk.scanK ppOf api (drainN w.it) w
    some (r.1, obs ++ [s!"d={showRows (r.1.it.out.drop w.it.out.length)}"], false)
  | ['D'] =>
    if api != Walk.Api.scan then none else
    let r := Walk.scanK ppOf api (drainN w.it) w
    if r.1.it.cur.err.isSome then
      -- SliceMap: (nil, err); the rows it had read are not handed over
      some ({ r.1 with it := { r.1.it with out := w.it.out } }, obs ++ ["D=nil"], true)
    else some (r.1, obs ++ [s!"D={showRows (r.1.it.out.drop w.it.out.length)}"], false)
  | _ => none

def walkFold (ppOf : Int → Nat → Nat) (api : Walk.Api) :
    Walk.W × List String × Bool → List String → Option (Walk.W × List String × Bool)
  | acc, [] => some acc
  | acc, t :: ts => match walkStep ppOf api acc t with
    | some a => walkFold ppOf api a ts
    | none => none

/-- op `walk` (spec-backed, `C15_walk_rows_spec` / `C15_walk_false_is_complete`): the strides only (rows handed
    over + result of the last call), all rows, and the final error once a call has returned false; op `walko`:
    everything (observers, prefetch probes, the request log at the moment of abandonment) -/
def walkReduce (obs : List String) (rows err : String) : String :=
  let keep := obs.filter fun o => o.startsWith "s=" || o.startsWith "d=" || o.startsWith "D="
  let ended := obs.any fun o => o.endsWith "/F" || o.startsWith "d=" || o.startsWith "D="
  s!"{if keep.isEmpty then "-" else ";".intercalate keep} rows={rows} err={if ended then err else "*"}"

def walkAnswer (full : Bool) (consumer pf ps kind script steps : String) (cancels : Bool := false) : String :=
  match ps.toInt?, parseScript script with
  | some pageSize, some sc =>
    if !(kind == "q" || kind == "x" || kind == "xs" || kind == "xd") then "bad-op" else
    if !(consumer == "scan" || consumer == "mapscan" || consumer == "scanner") then "bad-op" else
    let api := if consumer == "scanner" then Walk.Api.scanner else Walk.Api.scan
    if !cancels && (steps.splitOn ",").contains "x" then "bad-op" else
    let q : Qry := { ident := 1, prepared := kind != "q", skipMeta := kind == "xs", pageSize := pageSize,
                     pageState := [], disableAutoPage := false, ctx := some 1 }
    let ppOf : Int → Nat → Nat := fun _ => prefetchPos pf
    -- beyond the script the node answers `script exhausted`
    let w0 := Walk.start ppOf sc q
    match walkFold ppOf api (w0, [], false) (steps.splitOn ",") with
    | none => "bad-op"
    | some (w, obs, _) =>
      let w1 := Walk.settle ppOf w
      if full then
        s!"{";".intercalate obs} rows={showRows w1.it.out} err={showFail w1.it.cur.err} reqs={showReqs 1 w1.it.reqs}"
      else walkReduce obs (showRows w1.it.out) (showFail w1.it.cur.err)
  | _, _ => "bad-op"


/-! ## `first` / `firstx` op (single-row helpers Query.Scan / Query.MapScan / Query.Exec on a paged statement):
    `first v<n> <scan|mapscan|exec> <prefetch> <pagesize> <q|x|xs|xd> <script>`; `firstx` adds the request log -/

def showFirstErr : Option First.Err → String
  | none => "nil"
  | some .notFound => "notfound"
  | some (.fail f) => showFail (some f)

def firstAnswer (full : Bool) (helper pf ps kind script : String) : String :=
  match ps.toInt?, parseScript script with
  | some pageSize, some sc =>
    if !(kind == "q" || kind == "x" || kind == "xs" || kind == "xd") then "bad-op" else
    if !(helper == "scan" || helper == "mapscan" || helper == "exec") then "bad-op" else
    let q : Qry := { ident := 1, prepared := kind != "q", skipMeta := kind == "xs", pageSize := pageSize,
                     pageState := [], disableAutoPage := false }
    let o := if helper == "exec" then First.queryExec (prefetchPos pf) sc q else First.queryScan (prefetchPos pf) sc false q
    let row := match o.row with | some r => toString r | none => "-"
    s!"row={row} err={showFirstErr o.err}{if full then " reqs=" ++ showReqs 1 o.reqs else ""}"
  | _, _ => "bad-op"

/-! ## `psess` op (a failing PREPARE at a page fetch): as `sess` (1 node, draining consumers), script entries
    additionally `Ep<hexcode>` = the PREPARE of this fetch attempt is answered with that ERROR -/

def parsePReply (s : String) : Option Prep.PReply :=
  if s.startsWith "Ep" then
    match parseHex (s.drop 2).toString with
    | some [a, b] => some (.prepFail (.srv (a.toNat * 256 + b.toNat)))
    | _ => none
  else (parseReply s).map .base

def psessAnswer (consumer pf ps kind script : String) : String :=
  match ps.toInt?, (script.splitOn ";").mapM parsePReply with
  | some pageSize, some sc =>
    if !(kind == "x" || kind == "xs" || kind == "xd") then "bad-op" else
    if !(consumer == "scan" || consumer == "scanner" || consumer == "mapscan" || consumer == "slicemap") then "bad-op" else
    if !Prep.valid true sc true then "bad-op" else
    let q : Qry := { ident := 1, prepared := true, skipMeta := kind == "xs", pageSize := pageSize,
                     pageState := [], disableAutoPage := false }
    let o := Prep.runP (prefetchPos pf) sc false q
    let rows := if consumer == "slicemap" && o.err.isSome then "nil" else showRows o.rows
    s!"rows={rows} err={showFail o.err} reqs={showReqs 1 o.reqs}"
  | _, _ => "bad-op"

def step (_ : Unit) (ws : List String) : Unit × String :=
  ((), match ws with
  | ["iter", consumer, pages] =>
    match parsePages pages with
    | none => "bad-op"
    | some ps =>
      let q : Qry := { ident := 1, prepared := false, skipMeta := false, pageSize := 0, pageState := [], disableAutoPage := false }
      let o := run (fun _ => 0) (chainScript ps) false q
      let err := if o.err.isSome then "fetch failed" else "nil"
      if consumer == "slicemap" && o.err.isSome then s!"rows=nil err={err}"
      else s!"rows={showRows o.rows} err={err}"
  | ["ast", "paging"] => astExpect
  | ["sess", ver, consumer, pf, ps, kind, first, script] => sessAnswer ver consumer pf ps kind first script
  | ["sessx", ver, consumer, pf, ps, kind, first, script] => sessAnswer ver consumer pf ps kind first script
  | ["hist", vn, kind, consumer, scripts, steps] => histAnswer vn kind consumer scripts steps
  | ["rsess", ver, consumer, _, ps, kind, first, policy, script] => rsessAnswer ver consumer ps kind first policy script
  | ["walk", _, consumer, pf, ps, kind, script, steps] => walkAnswer false consumer pf ps kind script steps
  | ["walko", _, consumer, pf, ps, kind, script, steps] => walkAnswer true consumer pf ps kind script steps
  | ["walkc", _, consumer, pf, ps, kind, script, steps] => walkAnswer true consumer pf ps kind script steps true
  | ["first", _, helper, pf, ps, kind, script] => firstAnswer false helper pf ps kind script
  | ["firstx", _, helper, pf, ps, kind, script] => firstAnswer true helper pf ps kind script
  | ["psess", _, consumer, pf, ps, kind, script] => psessAnswer consumer pf ps kind script
  -- a statement bound to one connection (Conn.query: skipPrepare, follow-up pages through `n.qry.conn`): an unprepared query
  | ["csess", ver, consumer, pf, ps, script] =>
    if consumer == "manual" || (ver.splitOn "n").length > 1 then "bad-op" else sessAnswer ver consumer pf ps "q" "." script
  | ["rsessx", ver, consumer, _, ps, kind, first, policy, script] => rsessAnswer ver consumer ps kind first policy script
  | _ => "bad-op")

def init : Unit := ()
end Driver.C15
