import Model.Paging
import Driver.Util
namespace Driver.C15
open Util Paging

/-- pages: `;`-separated, rows `,`-separated ints, `E` = failed fetch, `-` = empty page; an optional
    `@p` suffix gives the prefetch position (ignored by the functional model: it only moves the fetch) -/
def parsePage (s : String) : Option (Option (List Int)) :=
  let body := (s.splitOn "@").headD ""
  if body == "E" then some none
  else if body == "-" || body == "" then some (some [])
  else ((body.splitOn ",").mapM (fun (x : String) => x.toInt?)).map some

def parsePages (s : String) : Option (List (Option (List Int))) := (s.splitOn ";").mapM parsePage

def showRows (l : List Int) : String := if l.isEmpty then "-" else ",".intercalate (l.map toString)

/-- expected facts about the source (checked on the AST by the harness) -/
def astExpect : String :=
  "more-pages-guard=true copies-query=true page-state-from-response=true newqry-assignments=2 next-iter=true pos-clamp=true request-carries-state=true manual-disables-auto=true fetch-once=true async-once=true scan-switches=true scanner-switches=true"

def step (_ : Unit) (ws : List String) : Unit × String :=
  ((), match ws with
  | ["iter", consumer, pages] =>
    match parsePages pages with
    | none => "bad-op"
    | some ps =>
      let failAt := ps.findIdx? (·.isNone)
      let rows := ps.map (fun p => p.getD [])
      let o := iterate (script rows failAt "fetch failed") (fun _ => 0) false (ps.length + 1) none
      let err := match o.err with | some e => e | none => "nil"
      if consumer == "slicemap" && o.err.isSome then s!"rows=nil err={err}"
      else s!"rows={showRows o.rows} err={err}"
  | ["ast", "paging"] => astExpect
  | _ => "bad-op")

def init : Unit := ()
end Driver.C15
