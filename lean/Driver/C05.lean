import Model.TypeStr
import Driver.Util
namespace Driver.C05
open Util

/-- ops (answers are compared with the implementation's by the check driver):
  ts   <hex>   metadata.go parseType               → ok:<result> | crash:<func>:<kind>
  gct  <hex>   helpers.go getCassandraType (ASCII) → ok:<type tree>
  gctx <hex>   the same on arbitrary bytes         → ok
  gti / gtix <hex>  metadata.go getTypeInfo
  a2c  <hex>   helpers.go apacheToCassandraType    → ok:<hex> -/
def typeStr (ws : List String) : Option String :=
  match ws with
  | [op, h] =>
    match parseHex h with
    | none => if op ∈ ["ts", "gct", "gctx", "gti", "gtix", "a2c"] then some "bad-op" else none
    | some bs =>
      let s := TypeStr.bytesOfHex bs
      match op with
      | "ts" => some (TypeStr.renderOut TypeStr.renderResult (TypeStr.parseType false s))
      | "gct" => some (TypeStr.renderOut TypeStr.renderTy (TypeStr.getCassandraType s))
      | "gctx" => some (TypeStr.renderOut (fun _ => "") (TypeStr.getCassandraType s) |>.dropEndWhile (· == ':') |>.toString)
      | "gti" => some (TypeStr.renderOut TypeStr.renderTy (TypeStr.getTypeInfo s))
      | "gtix" => some (TypeStr.renderOut (fun _ => "") (TypeStr.getTypeInfo s) |>.dropEndWhile (· == ':') |>.toString)
      | "a2c" => some ("ok:" ++ TypeStr.hexOf (TypeStr.apacheToCassandraType s))
      | _ => none
  | _ => none

def step (_ : Unit) (ws : List String) : Unit × String :=
  ((), match typeStr ws with
       | some a => a
       | none => "bad-op")

def init : Unit := ()
end Driver.C05
