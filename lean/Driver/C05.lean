import Model.TypeStr
import Model.FrameCrash
import Model.RowsCrash
import Model.Dispatch
import Model.CrashValue
import Model.PrepLife
import Model.EventFlow
import Model.ConnSetup
import Model.TokenRing
import Driver.Util
namespace Driver.C05
open Util

/-- ops (answers are compared with the implementation's by the check driver):
  ts   <hex>   metadata.go parseType               → ok:<result> | crash:<func>:<kind>
  gct  <hex>   helpers.go getCassandraType (ASCII) → ok:<type tree>
  gctx <hex>   the same on arbitrary bytes         → ok
  gti / gtix <hex>  metadata.go getTypeInfo
  a2c  <hex>   helpers.go apacheToCassandraType    → ok:<hex> -/
def typeStr (ws : List String) : Option String :=
  match ws with
  | [op, h] =>
    match parseHex h with
    | none => if op ∈ ["ts", "gct", "gctx", "gti", "gtix", "a2c"] then some "bad-op" else none
    | some bs =>
      let s := TypeStr.bytesOfHex bs
      match op with
      | "ts" => some (TypeStr.renderOut TypeStr.renderResult (TypeStr.parseType s))
      | "gct" => some (TypeStr.renderOut TypeStr.renderTy (TypeStr.getCassandraType s))
      | "gctx" => some (TypeStr.renderOut (fun _ => "") (TypeStr.getCassandraType s) |>.dropEndWhile (· == ':') |>.toString)
      | "gti" => some (TypeStr.renderOut TypeStr.renderTy (TypeStr.getTypeInfo s))
      | "gtix" => some (TypeStr.renderOut (fun _ => "") (TypeStr.getTypeInfo s) |>.dropEndWhile (· == ':') |>.toString)
      | "a2c" => some ("ok:" ++ TypeStr.hexOf (TypeStr.apacheToCassandraType s))
      | _ => none
  | _ => none

/-- frame <proto> <resp 0|1> <flags> <op> <hex body> ; rows <proto> <flags> <hex body> ;
    hdr <hex wire> ; body <proto> <length> <flags> <hex avail> -/
def frameOps (ws : List String) : Option String :=
  let bytes (h : String) : Option (List Nat) := (parseHex h).map (fun bs => bs.map (·.toNat))
  match ws with
  | ["frame", proto, resp, flags, op, h] =>
    match proto.toNat?, resp.toNat?, flags.toNat?, op.toNat?, bytes h with
    | some proto, some resp, some flags, some op, some body =>
      if FrameCrash.bit flags 0 then some "err" else
      some (match FrameCrash.parseFrame (proto % 128) (resp == 1) flags op body with
        | .ok fr _ => "ok:" ++ fr.kind
        | .err _ => "err"
        | .crash s _ => "crash:" ++ s.label)
    | _, _, _, _, _ => some "bad-op"
  | ["deep", what, depth] =>
    match depth.toNat? with
    | some d => some (FrameCrash.deepOutcome what d)
    | none => some "bad-op"
  | ["prim", name] =>
    some (FrameCrash.sourceFact name)
  | ["falloc", proto, flags, op, h] =>
    -- allocation class of one parse: the model counts the `make`/`string` calls sized from the wire
    match proto.toNat?, flags.toNat?, op.toNat?, bytes h with
    | some proto, some flags, some op, some body =>
      some (match FrameCrash.parseFrame (proto % 128) true flags op body with
        | .crash s _ => "crash:" ++ s.label
        | r => if r.allocated < 2097152 then "alloc:small" else if r.allocated ≥ 50331648 then "alloc:big" else "alloc:mid")
    | _, _, _, _ => some "bad-op"
  | ["alloc", "rows", _consumer, proto, flags, h] =>
    -- allocation class of a row consumer (scan | scanner | mapscan | slicemap | rowdata) over a RESULT body:
    -- `ok` = the model's allocation counter is within its bound (always, by C05.C05_rows_alloc_bound)
    match proto.toNat?, flags.toNat?, bytes h with
    | some proto, some flags, some body =>
      if FrameCrash.bit flags 0 then some "ok" else
      some (match FrameCrash.parseFrame (proto % 128) true flags 8 body with
        | .ok (.rows m n) st =>
          if m.cols.isEmpty then "ok"
          else if RowsCrash.consumeUnits m n st.buf ≤ RowsCrash.consumeBound m st.buf then "ok"
          else "over:" ++ toString (RowsCrash.consumeUnits m n st.buf)
        | .crash s _ => "crash:" ++ s.label
        | _ => "ok")
    | _, _, _ => some "bad-op"
  | ["rows", proto, flags, h] =>
    match proto.toNat?, flags.toNat?, bytes h with
    | some proto, some flags, some body =>
      if FrameCrash.bit flags 0 then some "err" else
      some (match FrameCrash.parseFrame (proto % 128) true flags 8 body with
        | .ok (.rows m n) st =>
          (match RowsCrash.scanAll m n st.buf with
           | .ok k => "ok:rows:" ++ toString k
           | .capped => "ok:rows:capped"
           | .err k => "err:rows:" ++ toString k
           | .crash s => "crash:" ++ s.label)
        | .ok fr _ => "ok:" ++ fr.kind
        | .err _ => "err"
        | .crash s _ => "crash:" ++ s.label)
    | _, _, _ => some "bad-op"
  | ["newrow", proto, flags, h] =>
    match proto.toNat?, flags.toNat?, bytes h with
    | some proto, some flags, some body =>
      if FrameCrash.bit flags 0 then some "err" else
      some (match FrameCrash.parseFrame (proto % 128) true flags 8 body with
        | .ok (.rows m _) _ =>
          (match RowsCrash.rowData m.cols 0 with
           | .ok k => "ok:newrow:" ++ toString k
           | .err => "err:newrow"
           | .crashMapOf => "crash:goType:reflect"
           | .crashAssert => "crash:goType:assert")
        | .ok fr _ => "ok:" ++ fr.kind
        | .err _ => "err"
        | .crash s _ => "crash:" ++ s.label)
    | _, _, _ => some "bad-op"
  | ["hdr", h] =>
    match bytes h with
    | some wire =>
      some (match FrameCrash.readHeader wire with
        | .ok v fl st op ln => "ok:" ++ toString v ++ ":" ++ toString fl ++ ":" ++ toString st ++ ":" ++ toString op ++ ":" ++ toString ln
        | .err => "err")
    | none => some "bad-op"
  | ["body", _proto, length, flags, h] =>
    match length.toInt?, flags.toNat?, bytes h with
    | some length, some flags, some avail =>
      let cap (a : Nat) : String := toString (if a == 0 then FrameCrash.defaultBufSize else a)
      some (match FrameCrash.readFrame length flags avail with
        | .ok _ a => "ok:" ++ cap a
        | .err a => "err:" ++ cap a)
    | _, _, _ => some "bad-op"
  | _ => none

/-- stateless: every op line is answered on its own (the driver state is `Unit`) -/
def step (_ : Unit) (ws : List String) : Unit × String :=
  match ws with
  -- the end-to-end EVENT scenario (STATUS_CHANGE "UP", inet size 16, 2 bytes, on stream -1 of a live
  -- v4 connection) is answered by the frame model: the first witness of
  -- C05.C05_former_frame_witnesses_are_errors (KF-C05-5: a parse error since the repair)
  | ["e2e", "event-short-inet"] =>
    ((), match FrameCrash.parseFrame 4 true 0 0x0C
              [0, 13, 83, 84, 65, 84, 85, 83, 95, 67, 72, 65, 78, 71, 69, 0, 2, 85, 80, 16, 254, 128] with
         | .crash s _ => "crash:" ++ s.label
         | .err _ => "parse-error"
         | .ok _ _ => "survived")
  | _ =>
    ((), match typeStr ws with
       | some a => a
       | none =>
         match frameOps ws with
         | some a => a
         | none =>
           -- disp / beh / disparms / dispctx / dispsites / dispkinds / dispfact / e2e: Model/Dispatch.lean
           match Dispatch.answer ws with
           | some a => a
           | none =>
             -- val <proto> <type> <dest> <hex|nil|->: Model/CrashValue.lean
             match CrashValue.answer ws with
             | some a => a
             | none =>
               -- seq / seqinv <callers> <steps..>: Model/PrepLife.lean (prepared-statement cache life cycle)
               match PrepLife.answer ws with
               | some a => a
               | none =>
                 -- evt / evtinv <cfg> <rounds>: Model/EventFlow.lean (frames on stream -1, every Events configuration)
                 match EventFlow.answer ws with
                 | some a => a
                 | none =>
                   -- hs <auth> <ks> <kinds>: Model/ConnSetup.lean (connection set-up as a sequence of answers)
                   match ConnSetup.answer ws with
                   | some a => a
                   | none =>
                     -- hsc <cfg> <supported> <kinds> <disc>: the same under non-default configurations
                     match ConnSetup.answerCfg ws with
                     | some a => a
                     | none =>
                       -- ring <name> <hosts> <lookup>: Model/TokenRing.lean (token strings from the network)
                       match TokenRing.answer ws with
                       | some a => a
                       | none => "bad-op")

def init : Unit := ()
end Driver.C05
