import Model.TypeStr
import Model.FrameCrash
import Model.RowsCrash
import Model.Dispatch
import Driver.Util
namespace Driver.C05
open Util

/-- ops (answers are compared with the implementation's by the check driver):
  ts   <hex>   metadata.go parseType               → ok:<result> | crash:<func>:<kind>
  gct  <hex>   helpers.go getCassandraType (ASCII) → ok:<type tree>
  gctx <hex>   the same on arbitrary bytes         → ok
  gti / gtix <hex>  metadata.go getTypeInfo
  a2c  <hex>   helpers.go apacheToCassandraType    → ok:<hex> -/
def typeStr (ws : List String) : Option String :=
  match ws with
  | [op, h] =>
    match parseHex h with
    | none => if op ∈ ["ts", "gct", "gctx", "gti", "gtix", "a2c"] then some "bad-op" else none
    | some bs =>
      let s := TypeStr.bytesOfHex bs
      match op with
      | "ts" => some (TypeStr.renderOut TypeStr.renderResult (TypeStr.parseType false s))
      | "gct" => some (TypeStr.renderOut TypeStr.renderTy (TypeStr.getCassandraType s))
      | "gctx" => some (TypeStr.renderOut (fun _ => "") (TypeStr.getCassandraType s) |>.dropEndWhile (· == ':') |>.toString)
      | "gti" => some (TypeStr.renderOut TypeStr.renderTy (TypeStr.getTypeInfo s))
      | "gtix" => some (TypeStr.renderOut (fun _ => "") (TypeStr.getTypeInfo s) |>.dropEndWhile (· == ':') |>.toString)
      | "a2c" => some ("ok:" ++ TypeStr.hexOf (TypeStr.apacheToCassandraType s))
      | _ => none
  | _ => none

/-- frame <proto> <resp 0|1> <flags> <op> <hex body> ; rows <proto> <flags> <hex body> ;
    hdr <hex wire> ; body <proto> <length> <flags> <hex avail> -/
def frameOps (ws : List String) : Option String :=
  let bytes (h : String) : Option (List Nat) := (parseHex h).map (fun bs => bs.map (·.toNat))
  match ws with
  | ["frame", proto, resp, flags, op, h] =>
    match proto.toNat?, resp.toNat?, flags.toNat?, op.toNat?, bytes h with
    | some proto, some resp, some flags, some op, some body =>
      if FrameCrash.bit flags 0 then some "err" else
      some (match FrameCrash.parseFrame false (proto % 128) (resp == 1) flags op body with
        | .ok fr _ => "ok:" ++ fr.kind
        | .err _ => "err"
        | .crash s _ => "crash:" ++ s.label)
    | _, _, _, _, _ => some "bad-op"
  | ["rows", proto, flags, h] =>
    match proto.toNat?, flags.toNat?, bytes h with
    | some proto, some flags, some body =>
      if FrameCrash.bit flags 0 then some "err" else
      some (match FrameCrash.parseFrame false (proto % 128) true flags 8 body with
        | .ok (.rows m n) st =>
          (match RowsCrash.scanAll false m n st.buf with
           | .ok k => "ok:rows:" ++ toString k
           | .capped => "ok:rows:capped"
           | .err k => "err:rows:" ++ toString k
           | .crash s => "crash:" ++ s.label)
        | .ok fr _ => "ok:" ++ fr.kind
        | .err _ => "err"
        | .crash s _ => "crash:" ++ s.label)
    | _, _, _ => some "bad-op"
  | ["hdr", h] =>
    match bytes h with
    | some wire =>
      some (match FrameCrash.readHeader wire with
        | .ok v fl st op ln => "ok:" ++ toString v ++ ":" ++ toString fl ++ ":" ++ toString st ++ ":" ++ toString op ++ ":" ++ toString ln
        | .err => "err")
    | none => some "bad-op"
  | ["body", _proto, length, flags, h] =>
    match length.toInt?, flags.toNat?, bytes h with
    | some length, some flags, some avail =>
      let cap (a : Nat) : String := toString (if a == 0 then FrameCrash.defaultBufSize else a)
      some (match FrameCrash.readFrame length flags avail with
        | .ok _ a => "ok:" ++ cap a
        | .err a => "err:" ++ cap a)
    | _, _, _ => some "bad-op"
  | _ => none

def step (_ : Unit) (ws : List String) : Unit × String :=
  ((), match typeStr ws with
       | some a => a
       | none =>
         match frameOps ws with
         | some a => a
         | none =>
           -- disp / beh / disparms / dispctx / dispsites / dispkinds / dispfact / e2e: Model/Dispatch.lean
           match Dispatch.answer ws with
           | some a => a
           | none => "bad-op")

def init : Unit := ()
end Driver.C05
