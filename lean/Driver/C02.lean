import Driver.C12
import Model.MarshalHistory
import Model.StringSpec
namespace Driver.C02
open Util
open ValueSpec (CqlTy CqlVal Bytes)
open Marshal
open Driver.C12 (pTy pVal pGoTy showVal)

/-!
ops (token syntax of Driver/C12.lean):
  rt p T V GT      → merr | uerr | crash | unmodelled | ok V'      model of gocql.Marshal followed by gocql.Unmarshal
                                                                    of the produced bytes into a fresh Go value of type GT
  rtx p T V GT     → merr | ok V' | refuse-or-same                                  the SPECIFICATION of the cross-kind round trip of an integer column
  hseq k ; C ; C … → per call same:<bytes> | merr, then late:ok     a sequence of same-type round trips in one process (C = N|A p T V GT)
  sstr T hex       → merr | ok bytes back re:same                 the SPECIFICATION of a Go string bound to an inet / date / integer
                                                                    column (Model/StringSpec.lean): refuse, or the value's bytes and the
                                                                    string a *string gets back, which re-encodes to the same bytes
  rtsame p T V GT  → merr | same                                    the PROPERTY (C02_scalar_roundtrip): whenever Marshal
                                                                    succeeds, decoding into the same Go type gives the value back
-/

def roundTrip (p : Nat) (t : CqlTy) (g : GoVal) (ty : GoTy) : String :=
  match marshal p t g with
  | .err => "merr"
  | .crash => "crash"
  | .unmodelled => "unmodelled"
  | .ok data => (match unmarshal p t ty data with
      | .ok v => "ok " ++ showVal v
      | .err => "uerr"
      | .crash => "crash"
      | .unmodelled => "unmodelled")

def roundTripSame (p : Nat) (t : CqlTy) (g : GoVal) (_ty : GoTy) : String :=
  match marshal p t g with
  | .ok _ => "same"
  | .err => "merr"
  | .crash => "crash"
  | .unmodelled => "unmodelled"

def runRT (f : Nat → CqlTy → GoVal → GoTy → String) (ws : List String) : String :=
  match ws with
  | p :: r => (match p.toNat? with
      | none => "bad-op"
      | some p => (match pTy (r.length + 1) r with
          | none => "bad-op"
          | some (t, r1) => (match pVal (r1.length + 1) r1 with
              | some (g, r2) => (match pGoTy (r2.length + 1) r2 with
                  | some (ty, []) => f p t g ty
                  | _ => "bad-op")
              | none => "bad-op")))
  | [] => "bad-op"

/-- `rtx`: the SPECIFICATION of the cross-kind integer round trip (Model/MarshalCross.lean; no model of gocql) -/
def crossAnswer (_p : Nat) (t : CqlTy) (g : GoVal) (ty : GoTy) : String :=
  match crossSpec t g ty with
  | .merr => "merr"
  | .ok v => "ok " ++ showVal v
  | .refuseOr _ => "refuse-or-same"
  | .unrepresentable => "unrepresentable"
  | .excluded kf => "excluded:" ++ kf
  | .undocumented => "undocumented"

/-- one call of an `hseq` line: the same-type round trip holds and the bytes are the SPECIFICATION's encoding of the
    documented meaning of the value (`Driver.C12.specAnswer`: specEnc ∘ interp) — a function of the call alone -/
def histCallAnswer (p : Nat) (t : CqlTy) (g : GoVal) (_ty : GoTy) : String :=
  match Driver.C12.specAnswer p t g with
  | "err" => "merr"
  | "null" => "same:null"
  | s => "same:" ++ (s.drop 3)

def splitCalls : List String → List String → List (List String) → List (List String)
  | [], cur, acc => (cur.reverse :: acc).reverse
  | w :: ws, cur, acc => if w == ";" then splitCalls ws [] (cur.reverse :: acc) else splitCalls ws (w :: cur) acc

def histAnswer (ws : List String) : String :=
  match ws with
  | k :: ";" :: r =>
    let calls := splitCalls r [] []
    if k.toNat? ≠ some calls.length then "bad-op" else
    let answers := calls.map (fun c => match c with
      | flag :: c' => if flag == "N" || flag == "A" then runRT histCallAnswer c' else "bad-op"
      | [] => "bad-op")
    if answers.any (· == "bad-op") then "bad-op" else " ".intercalate (answers ++ ["late:ok"])
  | _ => "bad-op"

/-- `sstr`: the SPECIFICATION of a string source (Model/StringSpec.lean; no model of gocql) -/
def hexOrDash (b : Bytes) : String := if b.isEmpty then "-" else toHex b

def strAnswer (ws : List String) : String :=
  match ws with
  | [col, h] =>
    (match pTy 2 [col], (if h == "-" then some [] else parseHex h) with
     | some (t, []), some s =>
       (match StrSpec.strSpec t s with
        | .merr => "merr"
        | .ok b back => "ok " ++ hexOrDash b ++ " " ++ hexOrDash back ++ " re:same"
        | .inconsistent => "spec-inconsistent"
        | .undocumented => "undocumented")
     | _, _ => "bad-op")
  | _ => "bad-op"

def step (_ : Unit) (ws : List String) : Unit × String :=
  ((), match ws with
  | "rt" :: r => runRT roundTrip r
  | "rtsame" :: r => runRT roundTripSame r
  | "rtx" :: r => runRT crossAnswer r
  | "hseq" :: r => histAnswer r
  | "sstr" :: r => strAnswer r
  | _ => "bad-op")

def init : Unit := ()
end Driver.C02
