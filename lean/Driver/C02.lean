import Driver.C12
namespace Driver.C02
open Util
open ValueSpec (CqlTy CqlVal Bytes)
open Marshal
open Driver.C12 (pTy pVal pGoTy showVal)

/-!
ops (token syntax of Driver/C12.lean):
  rt p T V GT      → merr | uerr | crash | unmodelled | ok V'      model of gocql.Marshal followed by gocql.Unmarshal
                                                                    of the produced bytes into a fresh Go value of type GT
  rtsame p T V GT  → merr | same                                    the PROPERTY (C02_scalar_roundtrip): whenever Marshal
                                                                    succeeds, decoding into the same Go type gives the value back
-/

def roundTrip (p : Nat) (t : CqlTy) (g : GoVal) (ty : GoTy) : String :=
  match marshal p t g with
  | .err => "merr"
  | .crash => "crash"
  | .unmodelled => "unmodelled"
  | .ok data => (match unmarshal p t ty data with
      | .ok v => "ok " ++ showVal v
      | .err => "uerr"
      | .crash => "crash"
      | .unmodelled => "unmodelled")

def roundTripSame (p : Nat) (t : CqlTy) (g : GoVal) (_ty : GoTy) : String :=
  match marshal p t g with
  | .ok _ => "same"
  | .err => "merr"
  | .crash => "crash"
  | .unmodelled => "unmodelled"

def runRT (f : Nat → CqlTy → GoVal → GoTy → String) (ws : List String) : String :=
  match ws with
  | p :: r => (match p.toNat? with
      | none => "bad-op"
      | some p => (match pTy (r.length + 1) r with
          | none => "bad-op"
          | some (t, r1) => (match pVal (r1.length + 1) r1 with
              | some (g, r2) => (match pGoTy (r2.length + 1) r2 with
                  | some (ty, []) => f p t g ty
                  | _ => "bad-op")
              | none => "bad-op")))
  | [] => "bad-op"

def step (_ : Unit) (ws : List String) : Unit × String :=
  ((), match ws with
  | "rt" :: r => runRT roundTrip r
  | "rtsame" :: r => runRT roundTripSame r
  | _ => "bad-op")

def init : Unit := ()
end Driver.C02
