import Driver.C01
namespace Driver.C06
/-- C06 uses the same observation monitor as C01 (ids reserved only for unanswered requests, every call returns once) -/
abbrev S := Driver.C01.S
def init : S := Driver.C01.init
def step : S → List String → S × String := Driver.C01.step
end Driver.C06
