import Driver.C01
import Model.MuxPipe
import Model.PoolLock
import Model.MuxExec
import Model.CtlBeat
import Model.EvDeb
namespace Driver.C06
open Util

/-- C06 uses the observation monitor of C01 for the black-box runs (ids reserved only for unanswered requests,
    every call returns once), the fine receive pipeline `Model/MuxPipe.lean` for the `jr` scripts and the lock
    model `Model/PoolLock.lean` for the `cf` / `cfk` scenarios -/
abbrev S := Driver.C01.S
def init : S := Driver.C01.init

/-! ### `jr`: the journey of a response through the receive loop, with real callers -/

structure JCall where
  L : Nat
  sent : Nat
  racy : Bool

structure JS where
  st : MuxPipe.St
  hl : Nat
  cap : Nat
  calls : List JCall          -- call i is calls[i-1]
  cur : Option Nat            -- the call whose response frame is partly written
  out : List String           -- reversed
  term : Option Char
  bad : Option String

def JS.act (js : JS) (a : MuxPipe.Act) (what : String) : JS :=
  if js.bad.isSome then js else
  match MuxPipe.step js.st a with
  | some st' => { js with st := st' }
  | none => { js with bad := some s!"model-stuck:{what}" }

def JS.fail (js : JS) (m : String) : JS := if js.bad.isSome then js else { js with bad := some m }

/-- recv's final select: the arm that is ready (theorem C06_pipe_recv_never_stuck: one always is) -/
def JS.handOver (js : JS) : JS :=
  if js.bad.isSome then js else
  match MuxPipe.step js.st .handResp with
  | some st' => { js with st := st' }
  | none => match MuxPipe.step js.st .handGone with
    | some st' => { js with st := st' }
    | none => match MuxPipe.step js.st .handCtx with
      | some st' => { js with st := st' }
      | none => { js with bad := some "model-stuck:hand-over" }

def setCall (cs : List JCall) (i : Nat) (c : JCall) : List JCall := cs.set (i - 1) c

/-- the server writes the next n bytes of the response frame of call i -/
def JS.deliver (js : JS) (i n : Nat) (racy : Bool) : JS :=
  match js.calls[i - 1]? with
  | none => js.fail "bad-op"
  | some c =>
    let total := js.hl + c.L
    let n := if racy then total - c.sent else n
    let after := c.sent + n
    if i = 0 ∨ n = 0 ∨ after > total ∨ (js.cur.isSome ∧ js.cur ≠ some i) then js.fail "bad-op" else
    let js := if c.sent < js.hl ∧ js.hl ≤ after then js.act (.recvHeader i) "recvHeader" else js
    let js := if after > js.hl ∧ after < total then js.act .recvBody "recvBody" else js
    let js := if after = total then (js.act .recvBodyEnd "recvBodyEnd").handOver else js
    { js with calls := setCall js.calls i { c with sent := after, racy := c.racy || racy },
              cur := if after = total then none else some i }

def waitingCalls (js : JS) : List Nat :=
  (List.range js.calls.length).filterMap fun k =>
    match js.st.m.pc (k + 1) with
    | .waiting _ => some (k + 1)
    | _ => none

def JS.closeAll (js : JS) : JS :=
  (waitingCalls js).foldl (fun js c => js.act (.mux (.connDone c)) "connDone") js

def numTail (w : String) : Option Nat := (String.ofList (w.toList.drop 1)).toNat?

def JS.step (js : JS) (w : String) : JS :=
  if js.bad.isSome then js else
  if js.term.isSome then js.fail "bad-op" else
  match w.toList with
  | 'q' :: _ =>
    match numTail w with
    | some L =>
      let c := js.calls.length + 1
      if c + 1 ≥ js.cap then js.fail "bad-op" else
      let js := ((js.act (.mux (.acquire c c)) "acquire").act (.mux (.wrote c)) "wrote").act (.mux (.answer c 0 c)) "answer"
      { js with calls := js.calls ++ [{ L := L, sent := 0, racy := false }] }
    | none => js.fail "bad-op"
  | 'd' :: _ =>
    match (String.ofList (w.toList.drop 1)).splitOn "." with
    | [a, b] => match a.toNat?, b.toNat? with
      | some i, some n => js.deliver i n false
      | _, _ => js.fail "bad-op"
    | _ => js.fail "bad-op"
  | 'r' :: _ =>
    match numTail w with
    | some i => js.deliver i 0 true
    | none => js.fail "bad-op"
  | 'c' :: _ =>
    match numTail w with
    | some i =>
      if i = 0 ∨ i > js.calls.length then js.fail "bad-op" else
      match js.st.m.pc i with
      | .waiting _ => js.act (.mux (.cancel i)) "cancel"
      | _ => js
    | none => js.fail "bad-op"
  | 'v' :: _ =>
    if js.cur.isSome ∨ (numTail w).isNone then js.fail "bad-op" else (js.act .recvEvent "recvEvent").act .recvBodyEnd "recvBodyEnd"
  | 'x' :: _ =>
    match numTail w with
    | some L =>
      if js.cur.isSome then js.fail "bad-op" else
      let js := js.act (.recvStray (js.calls.length + 1)) "recvStray"
      let js := if L > 1 then js.act .recvBody "recvBody" else js
      js.act .recvBodyEnd "recvBodyEnd"
    | none => js.fail "bad-op"
  | ['a'] => { js with out := s!"a={MuxPipe.held js.st js.calls.length}" :: js.out }
  | ['k'] =>
    let js := js.act (.mux .close) "close"
    let js := match js.st.rcv with
      | .stopped => js
      | _ => js.act .recvFail "recvFail"
    { js.closeAll with term := some 'k' }
  | ['z'] =>
    let js := js.act .recvFail "recvFail"
    let js := js.act (.mux .close) "close"
    { js.closeAll with term := some 'z' }
  | _ => js.fail "bad-op"

def JS.outcome (js : JS) (i : Nat) (c : JCall) : String :=
  let l := match js.st.m.pc i with
    | .done (.resp o _ _) => if o = i then "R" else "R!not-its-own-response"
    | .done .ctxErr => "C"
    | .done .connClosed => if js.term = some 'z' then "E" else "X"
    | .done .timeout => "T"
    | .done _ => "?"
    | .waiting _ => "W"
    | _ => "?"
  if c.racy ∧ (l = "R" ∨ l = "C") then "A" else l

def jrAnswer (proto wr tmo : String) (steps : List String) : String :=
  match proto.toNat?, wr.toNat?, tmo.toNat? with
  | some p, some _, some _ =>
    if p < 2 ∨ p > 4 then "bad-op" else
    let cap := if p ≤ 2 then 128 else 32768
    let js0 : JS := { st := MuxPipe.init cap, hl := if p ≤ 2 then 8 else 9, cap := cap, calls := [], cur := none,
                      out := [], term := none, bad := none }
    let js := steps.foldl JS.step js0
    match js.bad with
    | some b => b
    | none =>
      let outs := (List.range js.calls.length).map fun k =>
        match js.calls[k]? with
        | some c => js.outcome (k + 1) c
        | none => "?"
      " ".intercalate (js.out.reverse ++ [";"] ++ outs)
  | _, _, _ => "bad-op"

/-! ### `ex`: the program points of Conn.exec as scheduling points (StreamObserver parks), closing at any of them -/

structure XCall where
  fate : Char                 -- 'o' the frame is built and written / 'b' the frame builder fails
  mask : Nat                  -- park at 1: G (id reserved, not registered)  2: R (registered)  4: F (id cleared)
  parked : Bool

structure XS where
  st : MuxExec.St
  calls : List XCall          -- call i is calls[i-1]
  out : List String           -- reversed
  zed : Bool                  -- the server has closed the transport (closeWithError(err) begun)
  term : Bool                 -- the connection is closed and closeWithError is through
  bad : Option String

def XS.act (xs : XS) (a : MuxExec.Act) (what : String) : XS :=
  if xs.bad.isSome then xs else
  match MuxExec.step xs.st a with
  | some st' => { xs with st := st' }
  | none => { xs with bad := some s!"model-stuck:{what}" }

def XS.fail (xs : XS) (m : String) : XS := if xs.bad.isSome then xs else { xs with bad := some m }

def XS.setParked (xs : XS) (i : Nat) (p : Bool) : XS :=
  match xs.calls[i - 1]? with
  | some c => { xs with calls := xs.calls.set (i - 1) { c with parked := p } }
  | none => xs

/-- run call i forward to its next park / blocking point / return -/
def XS.adv : Nat → XS → Nat → Bool → XS
  | 0, xs, _, _ => xs.fail "model-stuck:fuel"
  | fuel + 1, xs, i, resume =>
    if xs.bad.isSome then xs else
    match xs.calls[i - 1]? with
    | none => xs.fail "bad-op"
    | some c =>
      match xs.st.pc i with
      | .got _ =>
          if c.mask % 2 = 1 ∧ ¬ resume then xs.setParked i true
          else XS.adv fuel (xs.act (.addCall i) "addCall") i false
      | .reg _ =>
          if (c.mask / 2) % 2 = 1 ∧ ¬ resume then xs.setParked i true
          else if c.fate = 'b' then XS.adv fuel (xs.act (.buildFail i) "buildFail") i false
          else if xs.st.ctxDone then xs.act (.writeFailed i) "writeFailed"
          else xs.act (.wrote i) "wrote"
      | .nwT _ _ => XS.adv fuel (xs.act (.nwDelete i) "nwDelete") i false
      | .nwD _ _ => XS.adv fuel (xs.act (.nwClear i) "nwClear") i false
      | .rel _ _ => XS.adv fuel (xs.act (.release i) "release") i false
      | .fin _ =>
          -- StreamFinished runs inside releaseStream (the harness's observer does not park on a closed connection)
          if (c.mask / 4) % 2 = 1 ∧ ¬ resume ∧ ¬ xs.st.closed then xs.setParked i true
          else xs.act (.finish i) "finish"
      | _ => xs

def xWaiting (xs : XS) : List Nat :=
  (List.range xs.calls.length).filterMap fun k =>
    match xs.st.pc (k + 1) with
    | .waiting _ => some (k + 1)
    | _ => none

def lowestFree (st : MuxExec.St) : Nat :=
  ((List.range 64).find? (fun s => s ≥ 1 ∧ (st.holder s).isNone)).getD 0

def XS.step (xs : XS) (w : String) : XS :=
  if xs.bad.isSome then xs else
  match w.toList with
  | ['n', f, m] =>
    if (f ≠ 'o' ∧ f ≠ 'b') ∨ m.toNat < 48 ∨ m.toNat > 55 ∨ xs.calls.length ≥ 40 then xs.fail "bad-op" else
    let i := xs.calls.length + 1
    let xs : XS := { xs with calls := xs.calls ++ [({ fate := f, mask := m.toNat - 48, parked := false } : XCall)] }
    let xs := xs.act (.getStream i (lowestFree xs.st)) "getStream"
    XS.adv 12 xs i false
  | 'g' :: _ =>
    match numTail w with
    | some i =>
      match xs.calls[i - 1]? with
      | some c => if i = 0 then xs.fail "bad-op" else if c.parked then XS.adv 12 (xs.setParked i false) i true else xs
      | none => xs.fail "bad-op"
    | none => xs.fail "bad-op"
  | 'd' :: _ =>
    match numTail w with
    | some i =>
      if i = 0 ∨ i > xs.calls.length ∨ xs.st.closed then xs.fail "bad-op" else
      match (List.range 64).find? (fun s => xs.st.wire s = .pending i) with
      | some s =>
        let xs := (xs.act (.answer s) "answer").act (.deliver s) "deliver"
        XS.adv 12 xs i false
      | none => xs.fail "bad-op"
    | none => xs.fail "bad-op"
  | 'c' :: _ =>
    match numTail w with
    | some i =>
      if i = 0 ∨ i > xs.calls.length ∨ xs.zed then xs.fail "bad-op" else
      match xs.st.pc i, xs.calls[i - 1]? with
      | .waiting _, some c => if (c.mask / 4) % 2 = 1 then xs.fail "bad-op" else xs.act (.cancel i) "cancel"
      | _, _ => xs.fail "bad-op"
    | none => xs.fail "bad-op"
  | ['a'] => if xs.st.closed then xs.fail "bad-op" else { xs with out := s!"a={MuxExec.held xs.st 63}" :: xs.out }
  | ['f'] =>
    -- how many StreamFinished call-backs have run: one per id cleared (C06_exec_release_once / _released_exactly_once)
    if xs.st.closed then xs.fail "bad-op" else
    { xs with out := s!"f={((List.range xs.calls.length).map fun k => xs.st.clears (k + 1)).foldl (· + ·) 0}" :: xs.out }
  | ['K'] =>
    if xs.st.closed then xs.fail "bad-op" else
    let xs := (xs.act (.closeBegin false) "closeBegin").act .closeFinish "closeFinish"
    let xs := (xWaiting xs).foldl (fun xs c => xs.act (.connDone c) "connDone") xs
    { xs with term := true }
  | ['Z'] =>
    if xs.st.closed then xs.fail "bad-op" else
    { xs.act (.closeBegin true) "closeBegin" with zed := true }
  | ['e'] =>
    if ¬ xs.zed ∨ xs.term then xs.fail "bad-op" else
    let xs := xs.st.snap.foldl (fun xs c => xs.act (.closeDeliver c) "closeDeliver") xs
    let xs := xs.act .closeFinish "closeFinish"
    let xs := (xWaiting xs).foldl (fun xs c => xs.act (.connDone c) "connDone") xs
    { xs with term := true }
  | _ => xs.fail "bad-op"

def XS.outcome (xs : XS) (i : Nat) (c : XCall) : String :=
  if c.parked then "P" else
  match xs.st.pc i with
  | .done (.resp o) => if o = i then "R" else "R!not-its-own-response"
  | .done .ctxErr => "C"
  | .done .timeout => "T"
  | .done .connClosed => "X"
  | .done .connErr => "E"
  | .done .writeErr => "E"
  | .done .buildErr => "B"
  | .done .inUse => "U"
  | .done .noStreams => "N"
  | .waiting _ => "W"
  | _ => "?"

def exAnswer (proto wr : String) (steps : List String) : String :=
  match proto.toNat?, wr.toNat? with
  | some p, some _ =>
    if p < 2 ∨ p > 4 then "bad-op" else
    let cap := if p ≤ 2 then 128 else 32768
    let xs0 : XS := { st := MuxExec.init cap, calls := [], out := [], zed := false, term := false, bad := none }
    let xs := steps.foldl XS.step xs0
    match xs.bad with
    | some b => b
    | none =>
      let outs := (List.range xs.calls.length).map fun k =>
        match xs.calls[k]? with
        | some c => xs.outcome (k + 1) c
        | none => "?"
      let flags := if xs.st.bad then ["double-or-foreign-release"] else []
      " ".intercalate (xs.out.reverse ++ flags ++ [";"] ++ outs)
  | _, _ => "bad-op"

/-! ### `hb`: controlConn.close() against the heartbeat loop -/

def hbAnswer (proto when fate : String) : String :=
  match proto.toNat?, when.toNat? with
  | some p, some w =>
    if p < 2 ∨ p > 4 ∨ w > 1 ∨ ¬ (["s", "e", "n", "z"].contains fate) then "bad-op" else
    let beat : List CtlBeat.Act := if fate = "s" then [.beatOk] else [.beatFail, .reconnect]
    let acts : List CtlBeat.Act :=
      if w = 0 then [.hbStart, .closeCas, .takeQuit, .closeConn]
      else [.hbStart, .timer, .closeCas] ++ beat ++ [.takeQuit, .closeConn]
    match CtlBeat.run CtlBeat.init acts with
    | some st =>
      if st.cl = .done ∧ st.hb = .exited then s!"ret hb=exited conn={if st.connClosed then "closed" else "open"}"
      else "closer-stuck"
    | none => "closer-stuck"
  | _, _ => "bad-op"

/-! ### `ev`: EVENT frames between responses while the handler of an earlier batch is held -/

structure ES where
  node : EvDeb.St
  schema : EvDeb.St
  calls : List Bool           -- answered?
  out : List String
  bad : Option String

def evAct (d : EvDeb.St) (a : EvDeb.Act) : Option EvDeb.St := EvDeb.step d a

def ES.step (es : ES) (w : String) : ES :=
  if es.bad.isSome then es else
  match w.toList with
  | ['E'] => match evAct es.node .event with
      | some d => { es with node := d }
      | none => { es with bad := some "model-stuck:recv-blocked-by-event-handling" }
  | ['S'] => match evAct es.schema .event with
      | some d => { es with schema := d }
      | none => { es with bad := some "model-stuck:recv-blocked-by-event-handling" }
  | ['H'] =>
      let fire := fun (d : EvDeb.St) =>
        if d.buf = 0 then some d else (EvDeb.step d .timerFire).bind (fun d => EvDeb.step d .flush)
      match fire es.node, fire es.schema with
      | some a, some b => { es with node := a, schema := b, out := s!"h={a.handed}/{b.handed}" :: es.out }
      | _, _ => { es with bad := some "model-stuck:flusher" }
  | ['U'] =>
      let drain := fun (d : EvDeb.St) => { d with running := 0 }
      { es with node := drain es.node, schema := drain es.schema }
  | ['q'] => if es.calls.length ≥ 40 then { es with bad := some "bad-op" } else { es with calls := es.calls ++ [false] }
  | 'd' :: _ =>
    match numTail w with
    | some i =>
      if i = 0 ∨ i > es.calls.length ∨ es.calls[i - 1]? ≠ some false then { es with bad := some "bad-op" }
      else { es with calls := es.calls.set (i - 1) true }
    | none => { es with bad := some "bad-op" }
  | ['a'] => { es with out := s!"a={(es.calls.filter (· == false)).length}" :: es.out }
  | _ => { es with bad := some "bad-op" }

def evAnswer (proto : String) (steps : List String) : String :=
  match proto.toNat? with
  | some p =>
    if p < 2 ∨ p > 4 then "bad-op" else
    let es := steps.foldl ES.step { node := EvDeb.init, schema := EvDeb.init, calls := [], out := [], bad := none }
    match es.bad with
    | some b => b
    | none =>
      " ".intercalate (es.out.reverse ++ [";"] ++ es.calls.map (fun r => if r then "R" else "W"))
  | none => "bad-op"

/-! ### `cf` / `cfk`: closing over transports whose Close() reports an error -/

def cfAnswer (kf : Bool) (ws : List String) : String :=
  match ws with
  | [proto, nconn, faults, inflight, late, act] =>
    match proto.toNat?, nconn.toNat?, inflight.toNat? with
    | some p, some n, some k =>
      let fl := faults.toList
      if p < 2 ∨ p > 4 ∨ n < 1 ∨ n > 4 ∨ fl.isEmpty ∨ k > 64 ∨ ¬ (["S", "P", "H", "R", "C"].contains act) ∨ (late = "1" ∧ n < 2)
          ∨ (late ≠ "0" ∧ late ≠ "1") then "bad-op" else
      let cerr : Nat → Bool := fun c => fl[(c - 1) % fl.length]? == some '1'
      let isLate := late == "1"
      let conns0 := (List.range (if isLate then n - 1 else n)).map (· + 1)
      -- the goroutines, in the order of the canonical schedule
      let action : List (List PoolLock.Instr) :=
        if act = "R" then
          [conns0.flatMap (fun c => [PoolLock.Instr.connError c]), (List.range n).flatMap (fun i => PoolLock.pConnectTail (n + 1 + i)), PoolLock.pClose]
        else if act = "C" then
          [[PoolLock.Instr.connClose 1], (if cerr 1 then PoolLock.pConnectTail (n + 1) else []), PoolLock.pClose]
        else [PoolLock.pClose]
      let lateT : List (List PoolLock.Instr) := if isLate then [PoolLock.pConnectTail n] else []
      let mon : List PoolLock.Instr := PoolLock.pPick ++ PoolLock.pHandleError 1 ++ PoolLock.pClose
      let progs := action ++ lateT ++ [mon]
      let st0 := PoolLock.init conns0 (fun t => progs.getD t [])
      let st := (List.range progs.length).foldl (fun st t => PoolLock.runThread cerr 10000 st t) st0
      if (List.range progs.length).any (fun t => PoolLock.selfDeadlocked st t) then
        (if isLate ∧ PoolLock.selfDeadlocked st action.length then "self-deadlock(connect>Conn.Close>HandleError)" else "self-deadlock")
      else if (List.range progs.length).any (fun t => !(st.prog t).isEmpty) then "model-stuck"
      else
        let ntr := if act = "R" then 2 * n else if act = "C" ∧ cerr 1 then n + 1 else n
        let closes := ",".intercalate ((List.range ntr).map fun i => toString (st.closes (i + 1)))
        let pick := if st.closed ∨ st.conns.isEmpty then "nil" else "conn"
        let _ := kf
        s!"ret calls={k}/{k} closes={closes} pick={pick} size={st.conns.length} he=ret"
    | _, _, _ => "bad-op"
  | _ => "bad-op"

def step (s : S) (ws : List String) : S × String :=
  match ws with
  | "jr" :: proto :: wr :: tmo :: steps => (s, jrAnswer proto wr tmo steps)
  | "ex" :: proto :: wr :: steps => (s, exAnswer proto wr steps)
  | ["hb", proto, when, fate] => (s, hbAnswer proto when fate)
  | "ev" :: proto :: steps => (s, evAnswer proto steps)
  | "cf" :: rest => (s, cfAnswer false rest)
  | "cfk" :: rest => (s, cfAnswer true rest)
  | _ => Driver.C01.step s ws

end Driver.C06
