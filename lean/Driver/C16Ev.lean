import Model.ClusterView
import Model.EventQueue
import Model.TokenMeta
import Driver.Util
/-! line-protocol driver for the event / refresh / propagation part of C16 (ops `reset ev…`, `ev…`) -/
namespace Driver.C16Ev
open Ring ClusterView

structure St where
  v : View := {}
  tokenAware : Bool := false
  dcAware : Bool := false
  noTopo : Bool := false
  noStatus : Bool := false
  objs : List RHost := []            -- objects defined by `evhost`
  dcs : List (Nat × Nat) := []       -- object ↦ data centre (1 = the policy's local dc, 3 = rejected by the host filter, 0 = "")
  addrs : List (Nat × Addrs) := []   -- object ↦ address fields (for HostInfo.update)
  nextObj : Nat := 1000              -- objects created by hostInfoFromMap
  ctl : Nat := 0                     -- address the control connection was dialled at
  prevIds : List Nat := []           -- host ids of the ring before the last evrefresh
  prevObjs : List RHost := []        -- objects of the ring before the last evrefresh
  specRep : List RHost := []         -- the property's reported list of the last evrefresh (local + valid peers)
  tracked : List Nat := []           -- objects reported DOWN by an event and not connected since
  deb : RGhost := {}                 -- unit tier on the real refreshDebouncer (`reset evdb`, `evdb…`)
  tm : TokenMeta.TMeta := {}         -- the token-aware policy's metadata (token ring + replica tables)
  scache : List Nat := []            -- keyspaces in the session's schema cache
  toks : List (Nat × Nat) := []      -- object ↦ number of tokens (objects of `evhost` have one)
  q : EvQueue.Q := {}                -- unit tier on the real eventDebouncer (`reset evq`, `evq…`): the model of the code
  qs : EvQueue.Spec := {}            -- … and the value-level specification run through the same schedule

def init : St := {}

def nat (s : String) : Nat := s.toNat?.getD 0
def join (l : List String) : String := if l.isEmpty then "-" else ",".intercalate l

def St.dcOf (s : St) (obj : Nat) : Nat := (lookup s.dcs obj).getD 0

def St.env (s : St) : Env :=
  { filter := fun h => s.dcOf h.obj == 3
    isLocal := fun h => !s.dcAware || s.dcOf h.obj == 1
    tokenAware := s.tokenAware, noTopo := s.noTopo, noStatus := s.noStatus }

/-- the keyspaces of the harness: 1 (the session keyspace) and 2 have SimpleStrategy metadata with a replication factor
above the number of nodes, the lookup of 3 fails, 4 has LocalStrategy (no replica map) -/
def St.tenv (s : St) : TokenMeta.TEnv :=
  { sessionKs := 1, known := fun k => k == 1 || k == 2, hasTok := fun h => (lookup s.toks h.obj).getD 1 != 0 }

/-- the metadata after a step of the view from `v` to `v'` (`TokenMeta.TMeta.follow`) -/
def St.followTm (s : St) (v v' : View) : TokenMeta.TMeta :=
  if s.tokenAware then s.tm.follow s.tenv v.pol.ta v'.pol.ta else s.tm

def St.obj? (s : St) (o : Nat) : Option RHost := s.objs.find? (fun h => h.obj == o)

/-! canonical rendering -/
def lexLt : List Nat → List Nat → Bool
  | [], [] => false
  | [], _ :: _ => true
  | _ :: _, [] => false
  | a :: x, b :: y => if a < b then true else if b < a then false else lexLt x y

def insertBy {α : Type} (key : α → List Nat) (e : α) : List α → List α
  | [] => [e]
  | x :: r => if lexLt (key e) (key x) then e :: x :: r else x :: insertBy key e r
def sortBy {α : Type} (key : α → List Nat) (l : List α) : List α := l.foldl (fun acc e => insertBy key e acc) []

def showHost (v : View) (h : RHost) : String :=
  toString h.id ++ "@" ++ toString h.addr ++ "/" ++ toString h.caddr ++ (if v.down.contains h.obj then "D" else "U")

def hostKey (v : View) (h : RHost) : List Nat := [cAddr h, h.id, h.addr, h.caddr, if v.down.contains h.obj then 1 else 0]

def showSet (v : View) (l : List RHost) : String := join ((sortBy (hostKey v) l).map (showHost v))

def snapshot (v : View) : String :=
  "ring=" ++ join ((sortBy (fun e : Nat × RHost => [e.1]) v.ring.byId).map (fun e => toString e.1 ++ "=" ++ showHost v e.2)) ++
  " ips=" ++ join ((sortBy (fun e : Nat × Nat => [e.1]) v.ring.byIp).map (fun e => toString e.1 ++ ":" ++ toString e.2)) ++
  " list=" ++ join (v.ring.list.map (fun h => toString h.id)) ++
  " pools=" ++ join ((sortBy (fun e : Nat × RHost => [e.1]) v.pools).map (fun e => toString e.1 ++ "=" ++ showHost v e.2)) ++
  " ta=" ++ showSet v v.pol.ta ++ " loc=" ++ showSet v v.pol.loc ++ " rem=" ++ showSet v v.pol.rem

/-- the E2E tier's snapshot: as `snapshot` without the ordered host list (Session.init fills the ring in Go map order) -/
def snapshotE (v : View) : String :=
  "ring=" ++ join ((sortBy (fun e : Nat × RHost => [e.1]) v.ring.byId).map (fun e => toString e.1 ++ "=" ++ showHost v e.2)) ++
  " ips=" ++ join ((sortBy (fun e : Nat × Nat => [e.1]) v.ring.byIp).map (fun e => toString e.1 ++ ":" ++ toString e.2)) ++
  " pools=" ++ join ((sortBy (fun e : Nat × RHost => [e.1]) v.pools).map (fun e => toString e.1 ++ "=" ++ showHost v e.2)) ++
  " ta=" ++ showSet v v.pol.ta ++ " loc=" ++ showSet v v.pol.loc ++ " rem=" ++ showSet v v.pol.rem

/-- every pool of a reachable node connects: `handleNodeConnected` for every pool -/
def connectAll (env : Env) (v : View) : View :=
  (sortBy (fun e : Nat × RHost => [e.1]) v.pools).foldl (fun v e => v.connected env e.1) v

/-- answer of an op that moved the view from `s.v` to `v'` -/
def answer (s : St) (v' : View) (pre : String) : St × String :=
  if v'.crashed then ({ s with v := { v' with crashed := false }, tm := s.followTm s.v v' }, "crash:nil-host")
  else
    let rr := if v'.refreshReq > s.v.refreshReq then "1" else "0"
    ({ s with v := v', tm := s.followTm s.v v' }, pre ++ snapshot v' ++ " rr=" ++ rr)

def parseEv (w : String) : Option Ev :=
  match w.toList with
  | ['t'] => some .topology
  -- NEW_NODE / REMOVED_NODE / MOVED_NODE for an address: handleNodeEvent never looks at the address of a topology event
  | 'n' :: _ => some .topology
  | 'r' :: _ => some .topology
  | 'm' :: _ => some .topology
  | 'u' :: r => some (.status .up (nat (String.ofList r)))
  | 'd' :: r => some (.status .down (nat (String.ofList r)))
  | 'x' :: r => some (.status .other (nat (String.ofList r)))
  | _ => none

def parseBatch (s : String) : List Ev := if s == "-" then [] else (s.splitOn ",").filterMap parseEv

/-- `id:peer:rpc:bcast:dc:rack:tokens` -/
def parseRow (w : String) : Option Row :=
  match (w.splitOn ":").map nat with
  | [id, peer, rpc, bcast, dc, rack, tok] => some ⟨id, peer, rpc, bcast, dc, rack, tok⟩
  | _ => none

def parseRows (s : String) : List Row := if s == "-" then [] else (s.splitOn ";").filterMap parseRow

def setFlags (s : St) (pol flags : String) : St :=
  { s with tokenAware := pol == "tarr" || pol == "tadc", dcAware := pol == "dc" || pol == "tadc",
           noTopo := flags.toList.contains 'T', noStatus := flags.toList.contains 'S' }

/-- register the data centres of the objects `obj0, obj0+1, …` created for the rows -/
def regRows (s : St) (rows : List Row) : St :=
  let n := rows.length
  { s with dcs := (List.range n).zip rows |>.foldl (fun acc (i, r) => (s.nextObj + i, r.dc) :: acc) s.dcs,
           toks := (List.range n).zip rows |>.foldl (fun acc (i, r) => (s.nextObj + i, r.tokens) :: acc) s.toks,
           nextObj := s.nextObj + n }

def setAC (a c : Nat) (h : RHost) (obj : Nat) : RHost := if h.obj == obj then { h with addr := a, caddr := c } else h

/-- `ring.addOrUpdate(h)` including `HostInfo.update` of the stored object's address fields (`View.updateStored`:
the by-address index follows a changed node address); returns the stored object -/
def addOrUpdateU (s : St) (h : RHost) : St × View × RHost :=
  let (r, e) := s.v.ring.addOrUpdate h
  let v1 := { s.v with ring := r }
  if e.obj == h.obj then (s, v1, e) else
  match lookup s.addrs e.obj, lookup s.addrs h.obj with
  | some ae, some ah =>
    let a' := ae.update ah
    ({ s with addrs := (e.obj, a') :: erase s.addrs e.obj, objs := s.objs.map (setAC a'.nodeAddr a'.conn · e.obj) },
     v1.updateStored e.id a'.nodeAddr a'.conn, { e with addr := a'.nodeAddr, caddr := a'.conn })
  | _, _ => (s, v1, e)

/-- the object a DOWN for address `a` marks down, if the address is known and the host not filtered -/
def downedObj (s : St) (a : Nat) : List Nat :=
  match s.v.ring.getHostByIP a with
  | (some h, true) => if s.env.filter h then [] else [h.obj]
  | _ => []

def trackBatch (s : St) (b : List Ev) : St :=
  if s.noStatus then s else
  { s with tracked := (coalesce b).foldl (fun acc e => if e.2 == .down then acc ++ downedObj s e.1 else acc) s.tracked }

/-- what the unit-level harness sees of the real refreshDebouncer after an op: is refreshFn running, is the timer
running, does timer.C / refreshNowCh hold a value, is there a broadcaster, refreshFn calls started so far -/
def debState (g : RGhost) : String :=
  let b (x : Bool) : String := if x then "1" else "0"
  "ph=" ++ (match g.d.phase with | .idle => "idle" | .woken => "woken" | .running => "run") ++
  " timer=" ++ b g.d.deadline.isSome ++ " fired=" ++ b g.d.fired ++ " tok=" ++ b g.d.nowPending ++
  " bc=" ++ b g.d.bc ++ " n=" ++ toString g.d.refreshes

def debOp (s : St) (op : DOp) : St × String :=
  let g := dstep 5 s.deb op
  ({ s with deb := g }, debState g)

/-- one refresh of the E2E tier: `refreshRing` with these rows on the view `s.v`, then every pool connects -/
def e2eRefresh (s : St) (rows : String) : Option St :=
  match parseRows rows with
  | [] => none
  | loc :: peers =>
    let s1 := regRows { s with prevIds := s.v.ring.ids, prevObjs := s.v.ring.allHosts, specRep := getHostsSpec loc peers s.nextObj } (loc :: peers)
    match getHosts loc peers s.nextObj with
    | none => none
    | some hs => some { s1 with v := connectAll s1.env (s1.v.refresh s1.env hs) }

def sortNat (l : List Nat) : List Nat := sortBy (fun n : Nat => [n]) l

def dedup (l : List Nat) : List Nat := l.foldl (fun acc x => if acc.contains x then acc else acc ++ [x]) []

/-- what the harness sees of the token-aware policy's metadata: host ids of the token ring (`nil` = no ring), of the
token owners, of every replica table (by keyspace) -/
def tmetaStr (te : TokenMeta.TEnv) (tm : TokenMeta.TMeta) : String :=
  let ids (l : List RHost) : String := join ((sortNat (l.map (·.id))).map toString)
  (match tm.tring with
   | none => "ring=nil own=nil"
   | some l => "ring=" ++ ids l ++ " own=" ++ ids (TokenMeta.replicaHosts te l)) ++
  " repl=" ++ (if tm.repl.isEmpty then "-" else
    ";".intercalate ((sortBy (fun e : Nat × List RHost => [e.1]) tm.repl).map (fun e => toString e.1 ++ ":" ++ ids e.2)))

def parseSchemaEv (w : String) : Option TokenMeta.SchemaEv :=
  match w.toList with
  | 'k' :: r => some (.keyspace (nat (String.ofList r)))
  | 't' :: r => some (.other (nat (String.ofList r)))
  | 'y' :: r => some (.other (nat (String.ofList r)))
  | 'f' :: r => some (.other (nat (String.ofList r)))
  | 'a' :: r => some (.other (nat (String.ofList r)))
  | _ => none

def schemaStr (s : St) (c : List Nat) (tm : TokenMeta.TMeta) : String :=
  "cache=" ++ join ((sortNat c).map toString) ++ " " ++ (if s.tokenAware then tmetaStr s.tenv tm else "-")

def showEv : Ev → String
  | .topology => "t"
  | .status .up a => "u" ++ toString a
  | .status .down a => "d" ++ toString a
  | .status .other a => "x" ++ toString a

/-- what the unit-level harness sees of the real eventDebouncer after an op: frames in the buffer, is the debounce
timer running, the handler goroutines that were started and have not yet read their frames -/
def queueState (q : EvQueue.Q) : String :=
  "buf=" ++ toString q.events.len ++ " timer=" ++ (if q.timer then "1" else "0") ++
  " pending=" ++ join (q.pending.map (fun p => toString p.1))

def queueOp (s : St) (a : EvQueue.QAct) : St :=
  { s with q := EvQueue.qstep EvQueue.goGrow s.q a, qs := EvQueue.sstep s.qs a }

def oracleStr (pfx : String) (l : List Nat) : String :=
  if l.isEmpty then "ok" else pfx ++ ",".intercalate (l.map toString)

/-- `evrefresh`: refreshRing with these system.local / system.peers contents -/
def refreshOp (s : St) (rows : String) : St × String :=
  match parseRows rows with
  | [] => (s, "bad-op")
  | loc :: peers =>
    let s1 := regRows { s with prevIds := s.v.ring.ids, prevObjs := s.v.ring.allHosts, specRep := getHostsSpec loc peers s.nextObj } (loc :: peers)
    match getHosts loc peers s.nextObj with
    -- a row without any address: hostInfoFromMap returns an error (repair of KF-C05-25; HostInfo.ConnectAddress
    -- panicked before), GetHosts fails and the refresh changes nothing
    | none => answer s1 s1.v "err:gethosts "
    | some hs => answer s1 (s1.v.refresh s1.env hs) "ok "

/-- ops (every answer ends with the canonical snapshot and `rr=` = a ring refresh was requested by the op)
  reset ev <rr|dc|tarr|tadc> <flags>            fresh dial-free session; flags ⊆ {T,S} (topology / status events disabled) or -
  evhost <obj> <id> <addr> <caddr> <dc> <p|l>   define a HostInfo object (peer- or local-sourced)
  evadd <obj>                                   Session.init's treatment of an initial host
  evaddu <obj>                                  ring.addOrUpdate alone (controlConn.setupConn), HostInfo.update included
  evrm <id>                                     Session.removeHost of the ring's host
  evbatch <evs> | evbatchx <evs>                handleNodeEvent; evs = t | u<addr> | d<addr> | x<addr>, comma separated
  evup <addr> | evdown <addr>                   handleNodeUp / handleNodeDown
  evconn <id>                                   handleNodeConnected(pool.host)
  evfail <id>                                   hostConnPool.fillingStopped(err)
  reset evc <pol> <flags> <ctl> <rows>          session with a control connection dialled at <ctl>; rows = local;peer;peer…
  evrefresh <rows> | evrefreshx <rows>          refreshRing with these system.local / system.peers contents
  evrefreshfail                                 refreshRing while the system queries fail
  evdeb <n> <evs>                               eventDebouncer fed n copies of the first event then the rest: number of frames delivered
  evfollows | evfollowsx                        oracle "the view follows the report" on the state after the last evrefresh
  evinpolicy | evinpolicyx                      oracle "every object new in the ring is in the policy's lists"
  evnotoffered                                  oracle "no object reported DOWN (and not connected since) is offered"
  evnostale                                     oracle "no by-address entry is stale" (addresses 0..1023)
  e2eorder <n>                                  n STATUS_CHANGE frames written back to back reach the debouncer in wire order
  e2efailover <succ> <rows>                     the control host is gone (connection reset, refuses connections); the only known host that accepts a
                                                connection is the one at <succ>; its tables are <rows>: reconnect, REGISTER, refresh
  e2ehold <evsA> <rowsA> <evsB> <rowsB>         burst A while the tables hold rowsA; the control node HOLDS its answer to system.peers (computed
                                                at arrival); the tables change to rowsB and burst B (topology events / UP of unknown addresses)
                                                is pushed and debounced WHILE that refresh is running; release; quiescence
  reset evdb                                    a real refreshDebouncer (1 h interval, refreshFn blocks until released, timer fired by hand)
  evdbreq | evdbnow | evdbfire | evdbrel | evdbdrain   debounce() / refreshNow() / the timer fires / refreshFn returns / until quiet (Model DOp)
  evpart | evks <k>                             policy.SetPartitioner(Murmur3) / policy.KeyspaceChanged(ks<k>) → the token-aware metadata
  evscache <k> | evschema <evs>                 the schema cache is filled for ks<k> / Session.handleSchemaEvent; evs = k<ks> | t<ks> | y<ks> | f<ks> | a<ks>
  evtmeta                                       the token-aware policy's metadata: hosts of the token ring, token owners, replica tables
  evrouted                                      oracle "every host the metadata refers to / a routed query is offered is an object of the ring"
  reset evq                                     a real eventDebouncer whose callback waits for the harness before it reads its frames
  evq <ev> | evqfire | evqrun <k>               debounce(frame) / the debounce timer expires (flush) / handler goroutine k reads its batch
  evqstop | evqstoprace | evqfirestop           eventDebouncer.stop(): flusher idle / racing with a timer expiry (stop first) / called while the
                                                flusher is committed to a flush (between `<-e.timer.C` and `e.mu.Lock()`)
  evqhandled                                    oracle "every handler that has run saw exactly the frames of its own flush"
  evdbserved                                    oracle "every request was followed by a refresh that started after it; every refreshNow() caller
                                                was answered, and not by a refresh that had started before its call" (positions in the requests) -/
def step (s : St) (ws : List String) : St × String :=
  let env := s.env
  match ws with
  | ["reset", "ev", pol, flags] => (setFlags {} pol flags, "ok")
  | ["evhost", o, id, a, c, dc, src] =>
    let o := nat o
    let h : RHost := ⟨o, nat id, nat a, nat c⟩
    let ad : Addrs := if src == "l" then ⟨0, nat a, nat c⟩ else ⟨nat a, 0, nat c⟩
    ({ s with objs := h :: s.objs.filter (fun x => x.obj != o), dcs := (o, nat dc) :: erase s.dcs o, addrs := (o, ad) :: erase s.addrs o }, "ok")
  | ["evadd", o] => match s.obj? (nat o) with
    | none => (s, "bad-op")
    | some h => if h.invalid then (s, "crash:invalid-host") else
      let (s1, v1, e) := addOrUpdateU s h
      answer s1 (if env.filter e then v1 else v1.startPoolFill env e) ""
  | ["evaddu", o] => match s.obj? (nat o) with
    | none => (s, "bad-op")
    | some h => if h.invalid then (s, "crash:invalid-host") else
      let (s1, v1, _) := addOrUpdateU s h
      answer s1 v1 ""
  | ["evrm", id] => match s.v.ring.getHost (nat id) with
    | none => answer s s.v ""
    | some h => answer s (s.v.removeHost env h) ""
  | ["evbatch", b] => answer (trackBatch s (parseBatch b)) (s.v.handleBatch env (parseBatch b)) ""
  | ["evbatchx", b] => answer (trackBatch s (parseBatch b)) (s.v.handleBatch env (parseBatch b)) ""
  | ["evup", a] => answer s (s.v.nodeUp env (nat a)) ""
  | ["evdown", a] => answer { s with tracked := s.tracked ++ downedObj s (nat a) } (s.v.nodeDown env (nat a)) ""
  | ["evconn", id] =>
    let s1 := match lookup s.v.pools (nat id) with
      | some h => { s with tracked := s.tracked.filter (· != h.obj) }
      | none => s
    answer s1 (s.v.connected env (nat id)) ""
  | ["evnotoffered"] => (s, if (s.v.offeredObjs s.tracked).isEmpty then "ok" else "offered")
  | ["evfollows"] => (s, oracleStr "violated:" (s.v.followsViolations env s.prevIds s.specRep))
  | ["evfollowsx"] => (s, oracleStr "violated:" (s.v.followsViolations env s.prevIds s.specRep))
  | ["evinpolicy"] => (s, oracleStr "missing:" (sortBy (fun n : Nat => [n]) (s.v.newNotInPolicy env s.prevObjs)))
  | ["evinpolicyx"] => (s, oracleStr "missing:" (sortBy (fun n : Nat => [n]) (s.v.newNotInPolicy env s.prevObjs)))
  | ["evnostale"] => (s, oracleStr "stale:" (s.v.ring.staleAddrs 1023))
  | ["evfail", id] => answer s (s.v.connectFailed env (nat id)) ""
  | ["reset", "evc", pol, flags, ctl, rows] =>
    let s0 := setFlags {} pol flags
    match parseRows rows with
    | [] => (s0, "bad-op")
    | loc :: peers =>
      -- setupConn: the control host, built with connectAddress = the dialled address, goes into the ring
      let s1 := regRows { s0 with ctl := nat ctl } [loc]
      match loc.host s0.nextObj (nat ctl) with
      | none => (s1, "err:setup")          -- hostInfoFromMap returns an error (repair of KF-C05-25): NewSession fails
      | some l0 =>
        let env1 := s1.env
        let (r, e) := View.empty.ring.addOrUpdate l0
        if env1.filter e then (s1, "err:setup") else
        -- init: GetHosts, then every accepted host is added
        let s2 := regRows s1 (loc :: peers)
        match getHosts loc peers s1.nextObj with
        | none => (s2, "err:setup")        -- a row without any address: GetHosts fails, NewSession fails
        | some hs =>
          let env2 := s2.env
          let v := hs.foldl (fun v h => if env2.filter h then v else v.addInitial env2 h) { View.empty with ring := r }
          -- NewVerifEvSession: SetPartitioner (from system.local) before the hosts are added; no keyspace is known yet
          let tm : TokenMeta.TMeta := if s2.tokenAware then { part := true, tring := some v.pol.ta } else {}
          answer { s2 with v := { v with refreshReq := 0 }, tm := tm } v "ok "
  | ["evrefresh", rows] => refreshOp s rows
  | ["evrefreshx", rows] => refreshOp s rows
  | ["evrefreshfail"] => answer s s.v "err:gethosts "
  /- E2E tier: a real Session with control connection on a scripted in-memory cluster; answers are the quiesced state -/
  | ["reset", "e2e", pol, flags, ctl, rows] =>
    let s0 := setFlags {} pol flags
    match parseRows rows with
    | [] => (s0, "bad-op")
    | loc :: peers =>
      let s1 := regRows { s0 with ctl := nat ctl } [loc]
      match loc.host s0.nextObj (nat ctl) with
      | none => (s1, "err:setup")
      | some l0 =>
        let (r, e) := View.empty.ring.addOrUpdate l0
        if s1.env.filter e then (s1, "err:setup") else
        let s2 := regRows s1 (loc :: peers)
        match getHosts loc peers s1.nextObj with
        | none => (s2, "err:setup")
        | some hs =>
          let env2 := s2.env
          let v := hs.foldl (fun v h => if env2.filter h then v else v.addInitial env2 h) { View.empty with ring := r }
          let v := connectAll env2 v
          ({ s2 with v := { v with refreshReq := 0 } }, "ok " ++ snapshotE v)
  | ["e2eevents", b, rows] =>
    -- a burst of EVENT frames within one debounce window, while the system tables hold `rows`
    let evs := parseBatch b
    let s0 := trackBatch s evs
    let v1 := connectAll env (s.v.handleBatch env evs)
    if v1.crashed then ({ s0 with v := { v1 with crashed := false } }, "crash:nil-host") else
    if v1.refreshReq == s.v.refreshReq then ({ s0 with v := v1 }, "refreshed=0 " ++ snapshotE v1) else
    (match parseRows rows with
    | [] => ({ s0 with v := v1 }, "bad-op")
    | loc :: peers =>
      let s1 := regRows { s0 with v := v1, prevIds := v1.ring.ids, prevObjs := v1.ring.allHosts, specRep := getHostsSpec loc peers s0.nextObj } (loc :: peers)
      match getHosts loc peers s0.nextObj with
      -- a row without any address: the refresh fails (logged) and changes nothing (not driven by the e2e generators)
      | none => (s1, "refreshed=1 " ++ snapshotE s1.v)
      | some hs =>
        let v2 := s1.v.refresh s1.env hs
        let v3 := connectAll s1.env v2
        ({ s1 with v := v3 }, "refreshed=1 " ++ snapshotE v3))
  | ["e2efail", b] =>
    -- the same while the system.peers query fails: the refresh (if any) changes nothing
    let evs := parseBatch b
    let s0 := trackBatch s evs
    let v1 := connectAll env (s.v.handleBatch env evs)
    ({ s0 with v := v1 }, "refreshed=" ++ (if v1.refreshReq == s.v.refreshReq then "0" else "1") ++ " " ++ snapshotE v1)
  | ["e2efailover", succ, rows] =>
    -- the control host is gone: the driver reconnects to the host at address <succ> (the only known host that accepts a
    -- connection), whose system.local / system.peers are `rows` (setupConn: ring.addOrUpdate + startPoolFill), REGISTERs
    -- again and refreshes; the events of the gap were never received (C16_failover_follows_report)
    let s0 := { s with ctl := nat succ }
    match parseRows rows with
    | [] => (s0, "bad-op")
    | loc :: peers =>
      let s1 := regRows s0 [loc]
      match loc.host s0.nextObj s0.ctl with
      | none => (s1, "err:no-control-connection")
      | some l0 =>
        let (s2, v1, e) := addOrUpdateU s1 l0
        let v2 := if s2.env.filter e then v1 else v1.startPoolFill s2.env e
        let s3 := regRows { s2 with v := v2, prevIds := v2.ring.ids, prevObjs := v2.ring.allHosts, specRep := getHostsSpec loc peers s2.nextObj } (loc :: peers)
        match getHosts loc peers s2.nextObj with
        | none => (s3, "bad-op")
        | some hs =>
          let v4 := connectAll s3.env (s3.v.refresh s3.env hs)
          ({ s3 with v := v4 }, "refreshed=1 ctl=" ++ toString loc.id ++ " reg=" ++ (if s3.noTopo && s3.noStatus then "0" else "1") ++ " " ++ snapshotE v4)
  | ["e2edrop", rows] =>
    -- the control connection is reset: reconnect to the same node (setupConn: ring.addOrUpdate + startPoolFill), then refreshRing
    match parseRows rows with
    | [] => (s, "bad-op")
    | loc :: peers =>
      let s1 := regRows s [loc]
      match loc.host s.nextObj s.ctl with
      | none => (s1, "err:no-control-connection")   -- setupConn fails (not driven: the dialled address is always set)
      | some l0 =>
        let (s2, v1, e) := addOrUpdateU s1 l0
        let v2 := if s2.env.filter e then v1 else v1.startPoolFill s2.env e
        let s3 := regRows { s2 with v := v2, prevIds := v2.ring.ids, prevObjs := v2.ring.allHosts, specRep := getHostsSpec loc peers s2.nextObj } (loc :: peers)
        match getHosts loc peers s2.nextObj with
        | none =>                           -- the refresh after the reconnect fails and changes nothing (not driven)
          let v4 := connectAll s3.env s3.v
          ({ s3 with v := v4 }, "refreshed=1 " ++ snapshotE v4)
        | some hs =>
          let v3 := s3.v.refresh s3.env hs
          let v4 := connectAll s3.env v3
          ({ s3 with v := v4 }, "refreshed=1 " ++ snapshotE v4)
  | ["e2ehold", bA, rowsA, bB, rowsB] =>
    let evsA := parseBatch bA
    let s0 := trackBatch s evsA
    let v1 := connectAll env (s.v.handleBatch env evsA)
    if v1.crashed then ({ s0 with v := { v1 with crashed := false } }, "crash:nil-host") else
    if v1.refreshReq == s.v.refreshReq then ({ s0 with v := v1 }, "err:no-refresh") else
    (match e2eRefresh { s0 with v := v1 } rowsA with
    | none => ({ s0 with v := v1 }, "bad-op")
    | some s1 =>
      -- burst B is handled while the first refresh waits for its answer: the ring it sees is the one before that refresh
      -- for the addresses B may name (unknown before AND after it), its status handlers change nothing
      let evsB := parseBatch bB
      let s2 := trackBatch s1 evsB
      let v2 := connectAll s1.env (s1.v.handleBatch s1.env evsB)
      if v2.crashed then ({ s2 with v := { v2 with crashed := false } }, "crash:nil-host") else
      if v2.refreshReq == s1.v.refreshReq then ({ s2 with v := v2 }, "refreshed=1 " ++ snapshotE v2) else
      match e2eRefresh { s2 with v := v2 } rowsB with
      | none => ({ s2 with v := v2 }, "bad-op")
      | some s3 => (s3, "refreshed=2 " ++ snapshotE s3.v))
  | ["reset", "evdb"] => ({ deb := {} }, "ok")
  | ["evdbreq"] => debOp s .req
  | ["evdbnow"] => debOp s .now
  | ["evdbfire"] => debOp s .fire
  | ["evdbrel"] => debOp s .release
  | ["evdbdrain"] => debOp s .drain
  | ["evdbserved"] =>
    (s, if !s.deb.lost.isEmpty then oracleStr "lost:" s.deb.lost
        else if !s.deb.early.isEmpty then oracleStr "early:" s.deb.early
        else oracleStr "unanswered:" s.deb.unanswered)
  | ["evpart"] =>
    let ps := TokenMeta.pstep env s.tenv ⟨s.v.pol, s.tm⟩ .setPartitioner
    ({ s with tm := ps.tm }, tmetaStr s.tenv ps.tm)
  | ["evks", k] =>
    let ps := TokenMeta.pstep env s.tenv ⟨s.v.pol, s.tm⟩ (.keyspaceChanged (nat k))
    ({ s with tm := ps.tm }, tmetaStr s.tenv ps.tm)
  | ["evtmeta"] => (s, tmetaStr s.tenv s.tm)
  | ["evscache", k] =>
    let st := TokenMeta.schemaOp env s.tenv s.v.pol ⟨s.scache, s.tm⟩ (.fill (nat k))
    ({ s with scache := st.cache }, schemaStr s st.cache s.tm)
  | ["evschema", b] =>
    let evs := if b == "-" then [] else (b.splitOn ",").filterMap parseSchemaEv
    let st := TokenMeta.schemaOp env s.tenv s.v.pol ⟨s.scache, s.tm⟩ (.events evs)
    ({ s with scache := st.cache, tm := st.tm }, schemaStr s st.cache st.tm)
  | ["evrouted"] =>
    -- oracle: every host the token-aware metadata refers to (every host a routed query can be offered) is an object of
    -- the ring (C16_routed_oracle_ok)
    (s, oracleStr "vanished:" (sortNat (dedup (s.tm.strayRefs s.v.ring.allHosts))))
  | ["reset", "evq"] => ({ q := {}, qs := {} }, "ok")
  | ["evq", e] => match parseEv e with
    | none => (s, "bad-op")
    | some ev => let s1 := queueOp s (.debounce ev); (s1, queueState s1.q)
  | ["evqfire"] => let s1 := queueOp s .fire; (s1, queueState s1.q)
  | ["evqrun", k] =>
    let s1 := queueOp s (.run (nat k))
    if s1.q.handled.length == s.q.handled.length then (s1, "none " ++ queueState s1.q) else
    match s1.q.handled.getLast? with
    | none => (s1, "none " ++ queueState s1.q)
    | some b => (s1, "batch=" ++ join (b.2.map showEv) ++ " " ++ queueState s1.q)
  | ["evqstop"] => let s1 := queueOp s .stop; (s1, "stopped " ++ queueState s1.q)
  | ["evqstoprace"] =>
    -- stop() and an expiry of the debounce timer race, stop synchronises with the flusher first: the expiry finds no flusher
    let s1 := queueOp (queueOp s .stop) .fire; (s1, "stopped " ++ queueState s1.q)
  | ["evqfirestop"] =>
    -- the timer has expired and the flusher is committed to flushing when stop() is called: the flush happens, then the stop
    let s1 := queueOp (queueOp s .fire) .stop; (s1, "stopped " ++ queueState s1.q)
  | ["evqhandled"] =>
    -- oracle: every handler that has run saw exactly the frames of its own flush (C16_event_batches_intact)
    (s, if s.q.intact s.qs then "ok" else
      oracleStr "clobbered:" ((s.q.handled.filter (fun b => !s.qs.handled.contains b)).map (·.1)))
  | ["e2ebound"] => (s, "ok")
  | ["e2eorder", n] =>
    -- n STATUS_CHANGE frames written back to back: the buffer of the node-event debouncer is the wire order (C16_wire_order_last_wins)
    let wire := (List.range (nat n)).map (fun i => WireFrame.nodeEvent (.status .up (2000 + i)))
    (s, if recvBuffer wire == wireEvents wire then "inorder" else "reordered")
  | ["evdeb", n, b] =>
    let evs := parseBatch b
    match evs with
    | [] => (s, "-")
    | e :: rest =>
      let burst := List.replicate (nat n) e ++ rest
      (s, toString (debounced burst).length)
  | _ => (s, "bad-op")

end Driver.C16Ev
