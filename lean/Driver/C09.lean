import Model.Murmur
import Model.MurmurPlaced
import Model.Token
import Model.Routing
import Model.RoutingNames
import Model.RoutingCache
import Model.Marshal
import Driver.C12
import Driver.Util
namespace Driver.C09
open Util

/-- split a word list at the "/" separators -/
def splitSteps (ws : List String) : List (List String) :=
  let r := ws.foldr (fun w (acc : List String × List (List String)) => if w == "/" then ([], acc.1 :: acc.2) else (w :: acc.1, acc.2)) ([], [])
  r.1 :: r.2


/-! ### op `rkm`: routing key through Session.routingKeyInfo (metadata of the prepared statement) -/

open ValueSpec (CqlTy) in
def pCols : Nat → List String → Option (List (Routing.Col CqlTy) × List String)
  | 0, ws => some ([], ws)
  | n+1, "|" :: name :: r => do
      let (t, r1) ← Driver.C12.pTy (r.length + 1) r
      let (cs, r2) ← pCols n r1
      some (⟨name, t⟩ :: cs, r2)
  | _, _ => none

def pVals : Nat → List String → Option (List Marshal.GoVal × List String)
  | 0, ws => some ([], ws)
  | n+1, "|" :: r => do
      let (v, r1) ← Driver.C12.pVal (r.length + 1) r
      let (vs, r2) ← pVals n r1
      some (v :: vs, r2)
  | _, _ => none

def pRows : List Nat → List String → Option (List (List Marshal.GoVal))
  | [], [] => some []
  | [], _ :: _ => none
  | n :: ns, ws => do
      let (vs, rest) ← pVals n ws
      let more ← pRows ns rest
      some (vs :: more)

/-- a schema row `name:kind:position`; the partition-key rows -/
def pSchemaRow (w : String) : Option (Option (String × Nat)) :=
  match w.splitOn ":" with
  | [n, k, p] => p.toNat?.map (fun p => if k == "p" then some (n, p) else none)
  | _ => none

def takeN (n : Nat) (ws : List String) : Option (List String × List String) :=
  if ws.length < n then none else some (ws.take n, ws.drop n)

/-- gocql.Marshal as modelled for C12 -/
def encOf (p : Nat) (t : ValueSpec.CqlTy) (v : Marshal.GoVal) : Routing.Enc :=
  match Marshal.marshal p t v with
  | .ok b => .ok b
  | .err => .err
  | .crash => .crash
  | .unmodelled => .crash

def showKey (isQuery : Bool) (ks tbl : String) : Routing.KeyRes → String
  | .nokey => if isQuery then "nil ." else "nil"
  | .key none => if isQuery then "nil " ++ ks ++ "." ++ tbl else "nil"
  | .key (some b) => "ok " ++ Driver.C12.toHexC b ++ (if isQuery then " " ++ ks ++ "." ++ tbl else "")
  | .errMarshal => "err:marshal"
  | .errValues => "err:values"
  | .errMeta => "err:meta"
  | .crash => "crash"

/-- rkm <proto> <gs> <q|b|bx> <npk> <idx>… <sch> <m> <name:kind:pos>… <ncols> {| <name> <T…>}… | <nrows> <nvals>… {| <V…>}…
    gs = global table spec flag of the PREPARE answer (keyspace "ks", table "tbl"); sch = 1|2: the schema tables of
    "ks" have table "tbl" with the column rows <name:kind:position>… (kind p = partition key), compiled by
    compileMetadata; 0: they do not have it. One answer per row, joined by " ; ". -/
def rkm (ws : List String) : Option String := do
  match ws with
  | p :: gs :: kind :: npk :: r0 =>
    let p ← p.toNat?
    let npk ← npk.toNat?
    let (pkw, r1) ← takeN npk r0
    let pk ← pkw.mapM (·.toNat?)
    match r1 with
    | sch :: m :: r2 =>
      let m ← m.toNat?
      let (roww, r3) ← takeN m r2
      let srows ← roww.mapM pSchemaRow
      -- TableMetadata.PartitionKey as compileMetadata builds it; a nil entry is not modelled (never generated)
      let names ← (Routing.schemaPartitionKey (srows.filterMap id)).mapM id
      match r3 with
      | ncols :: r4 =>
        let ncols ← ncols.toNat?
        let (cols, r5) ← pCols ncols r4
        match r5 with
        | "|" :: nrows :: r6 =>
          let nrows ← nrows.toNat?
          let (cntw, r7) ← takeN nrows r6
          let cnts ← cntw.mapM (·.toNat?)
          let rows ← pRows cnts r7
          let global := gs == "1"
          let ks := if global then "ks" else ""
          let tbl := if global then "tbl" else ""
          let md : Routing.Meta ValueSpec.CqlTy := ⟨cols, pk, ks, tbl⟩
          let schema : Option (List String) := if sch != "0" && global then some names else none
          let isQuery := kind == "q"
          some (" ; ".intercalate (rows.map (fun vals =>
            showKey isQuery ks tbl (Routing.getRoutingKey (encOf p) md schema vals))))
        | _ => none
      | [] => none
    | _ => none
  | _ => none

/-! ### op `rkn`: name / index resolution (names are BYTE strings, written in hex) -/

/-- a schema row `<nameHex>:kind:position`; the partition-key rows -/
def pSchemaRowN (w : String) : Option (Option (List UInt8 × Nat)) :=
  match w.splitOn ":" with
  | [n, k, p] => do
      let n ← parseHex n
      let p ← p.toNat?
      some (if k == "p" then some (n, p) else none)
  | _ => none

/-- <tblHex> <m> <nameHex:kind:pos>… per table -/
def pTablesN : Nat → List String → Option (RoutingNames.Keyspace (List UInt8) × List String)
  | 0, ws => some ([], ws)
  | n+1, tb :: m :: r => do
      let tb ← parseHex tb
      let m ← m.toNat?
      let (roww, r1) ← takeN m r
      let srows ← roww.mapM pSchemaRowN
      let (more, r2) ← pTablesN n r1
      some ((tb, srows.filterMap id) :: more, r2)
  | _, _ => none

/-- <ksHex> <style> <ntables> <table>… per keyspace (style 1|2: Cassandra 3.x / 2.x schema rows — the same key) -/
def pKeyspacesN : Nat → List String → Option (RoutingNames.Cache (List UInt8) × List String)
  | 0, ws => some ([], ws)
  | n+1, ks :: _ :: nt :: r => do
      let ks ← parseHex ks
      let nt ← nt.toNat?
      let (tbls, r1) ← pTablesN nt r
      let (more, r2) ← pKeyspacesN n r1
      some ((ks, tbls) :: more, r2)
  | _, _ => none

def showKeyN (isQuery : Bool) (ks tbl : List UInt8) : RoutingNames.Res → String
  | .unmodelled => "unmodelled"
  | .res .nokey => if isQuery then "nil -.-" else "nil"
  | .res (.key none) => if isQuery then "nil " ++ toHex ks ++ "." ++ toHex tbl else "nil"
  | .res (.key (some b)) => "ok " ++ Driver.C12.toHexC b ++ (if isQuery then " " ++ toHex ks ++ "." ++ toHex tbl else "")
  | .res .errMarshal => "err:marshal"
  | .res .errValues => "err:values"
  | .res .errMeta => "err:meta"
  | .res .crash => "crash"

/-- rkn <proto> <q|b> <ksHex> <tblHex> <npk> <idx>… <nks> {<ksHex> <style> <ntables> {<tblHex> <m> <nameHex:kind:pos>…}…}…
        <ncols> {| <nameHex> <T…>}… | <nrows> <nvals>… {| <V…>}…
    the PREPARE answer has the global table spec (ksHex, tblHex), the bind markers <nameHex> <T> and (protocol ≥ 4) the
    partition-key bind indexes <idx>…; the session's schema cache holds the listed keyspaces / tables. -/
def rkn (ws : List String) : Option String := do
  match ws with
  | p :: kind :: ks :: tbl :: npk :: r0 =>
    let p ← p.toNat?
    let ks ← parseHex ks
    let tbl ← parseHex tbl
    let npk ← npk.toNat?
    let (pkw, r1) ← takeN npk r0
    let pk ← pkw.mapM (·.toNat?)
    match r1 with
    | nks :: r2 =>
      let nks ← nks.toNat?
      let (cache, r3) ← pKeyspacesN nks r2
      match r3 with
      | ncols :: r4 =>
        let ncols ← ncols.toNat?
        let (cols, r5) ← pCols ncols r4
        let markers ← cols.mapM (fun c => (parseHex c.name).map (fun n => (⟨n, c.ty⟩ : RoutingNames.Marker (List UInt8) ValueSpec.CqlTy)))
        match r5 with
        | "|" :: nrows :: r6 =>
          let nrows ← nrows.toNat?
          let (cntw, r7) ← takeN nrows r6
          let cnts ← cntw.mapM (·.toNat?)
          let rows ← pRows cnts r7
          let st : RoutingNames.Stmt (List UInt8) ValueSpec.CqlTy := ⟨markers, pk, ks, tbl⟩
          let isQuery := kind == "q"
          some (" ; ".intercalate (rows.map (fun vals =>
            showKeyN isQuery ks tbl (RoutingNames.getRoutingKey (encOf p) st cache vals))))
        | _ => none
      | [] => none
    | [] => none
  | _ => none

/-! ### op `rkc`: the routing-key info cache over a history of one session (Model/RoutingCache.lean) -/

/-- <npk> <idx>… <sch> <m> <name:kind:pos>… <ncols> {| <name> <T…>}…  — what the server answers to PREPARE of the statement
    (global table spec ks.<tbl>, partition-key bind indexes under protocol ≥ 4) and the schema rows of its table -/
def pStmt (tbl : String) (ws : List String) : Option (RoutingCache.Stmt ValueSpec.CqlTy × List String) := do
  match ws with
  | npk :: r0 =>
    let npk ← npk.toNat?
    let (pkw, r1) ← takeN npk r0
    let pk ← pkw.mapM (·.toNat?)
    match r1 with
    | sch :: m :: r2 =>
      let m ← m.toNat?
      let (roww, r3) ← takeN m r2
      let srows ← roww.mapM pSchemaRow
      let names ← (Routing.schemaPartitionKey (srows.filterMap id)).mapM id
      match r3 with
      | ncols :: r4 =>
        let ncols ← ncols.toNat?
        let (cols, r5) ← pCols ncols r4
        some (⟨⟨cols, pk, "ks", tbl⟩, if sch != "0" then some names else none⟩, r5)
      | [] => none
    | _ => none
  | [] => none

def pStmts : Nat → Nat → List String → Option (List (RoutingCache.Stmt ValueSpec.CqlTy) × List String)
  | 0, _, ws => some ([], ws)
  | n+1, i, ws => do
      let (st, r) ← pStmt ("t" ++ toString i) ws
      let (more, r2) ← pStmts n (i+1) r
      some (st :: more, r2)

abbrev CStep := RoutingCache.Step ValueSpec.CqlTy Marshal.GoVal

def pUse (ws : List String) : Option (Nat × List Marshal.GoVal) :=
  match ws with
  | k :: n :: r => do
      let k ← k.toNat?
      let n ← n.toNat?
      let (vs, rest) ← pVals n r
      if rest.isEmpty then some (k, vs) else none
  | _ => none

/-- one step of the history: its kind word (how the answer is printed) and the model's step -/
def pCStep (ws : List String) : Option (String × CStep) :=
  match ws with
  | ["dn"] => some ("-", .down)
  | ["up"] => some ("-", .up)
  | ["max", n] => n.toNat?.map (fun n => ("-", .setMax n))
  | ["b0"] => some ("b", .batchEmpty)
  | ["qb", k] => k.toNat?.map (fun k => ("q", .useBinding k))
  | ["bb", k] => k.toNat?.map (fun k => ("b", .useBinding k))
  | "q" :: r => (pUse r).map (fun (k, vs) => ("q", .use k vs))
  | "b" :: r => (pUse r).map (fun (k, vs) => ("b", .use k vs))
  | "qe" :: h :: r => do
      let key ← parseHex h
      let (k, vs) ← pUse r
      some ("qe", .useExplicit key k vs)
  | "be" :: h :: r => do
      let key ← parseHex h
      let (k, vs) ← pUse r
      some ("b", .useExplicit key k vs)
  | "chg" :: k :: r => do
      let k ← k.toNat?
      let (st, rest) ← pStmt ("t" ++ toString k) r
      if rest.isEmpty then some ("-", .change k st) else none
  | _ => none

def stepStmt : CStep → Option Nat
  | .use k _ => some k
  | .useExplicit _ k _ => some k
  | .useBinding k => some k
  | _ => none

def showOut (kind : String) (tbl : String) : Option RoutingCache.Out → String
  | none => "-"
  | some .errNoConn => "err:noconn"
  | some (.res r) =>
    if kind == "qe" then showKey true "" "" r   -- an explicit key: the Query has not looked at the statement
    else showKey (kind == "q") "ks" tbl r

def showOrder (l : RoutingCache.LRU ValueSpec.CqlTy) : String :=
  "[" ++ ",".intercalate (l.map (fun p => toString p.1)) ++ "]"

def runC (p : Nat) : RoutingCache.State ValueSpec.CqlTy → List (String × CStep) → List String
  | _, [] => []
  | s, (kind, st) :: rest =>
    let r := RoutingCache.step (encOf p) s st
    let tbl := match stepStmt st with | some k => "t" ++ toString k | none => ""
    (showOut kind tbl r.1 ++ " " ++ showOrder r.2.lru) :: runC p r.2 rest

/-- rkc <proto> <max> <nst> <stmt>… / <step> / <step> …   one answer per step, joined by " ; ": the routing key (or
    "-" for a step that asks for none) and the statements in the cache from the most recently used to the oldest.
    `rkc` (spec-backed) answers only SAFE histories (RoutingCache.safe: theorem C09_cache_transparent_partial);
    `rkcx`: any history (model vs code). -/
def rkc (checkSafe : Bool) (ws : List String) : Option String := do
  match ws with
  | p :: mx :: nst :: r0 =>
    let p ← p.toNat?
    let mx ← mx.toNat?
    let nst ← nst.toNat?
    let (stmts, r1) ← pStmts nst 0 r0
    match r1 with
    | "/" :: r2 =>
      let steps ← (splitSteps r2).mapM pCStep
      let s0 : RoutingCache.State ValueSpec.CqlTy := ⟨stmts, true, mx, []⟩
      if checkSafe && !RoutingCache.safe (encOf p) s0 (steps.map (·.2)) then some "unsafe-history"
      else some (" ; ".intercalate (runC p s0 steps))
    | _ => none
  | _ => none

/-! ### op `rkq`: concurrent first uses of one statement (RoutingCache.Conc), a conducted schedule -/

abbrev CEv := RoutingCache.Conc.Ev Marshal.GoVal

def pCEv (ws : List String) : Option CEv :=
  match ws with
  | ["ok"] => some .ansOk
  | ["fail"] => some .ansFail
  | "go" :: g :: n :: r => do
      let g ← g.toNat?
      let n ← n.toNat?
      let (vs, rest) ← pVals n r
      if rest.isEmpty then some (.go g vs) else none
  | _ => none

def showCOut : RoutingCache.Conc.COut → String
  | .errPrepare => "err:prepare"
  | .res r => showKey true "ks" "t0" r

def showCAns (l : List (Nat × RoutingCache.Conc.COut)) : String :=
  if l.isEmpty then "-" else " , ".intercalate (l.map (fun p => "g" ++ toString p.1 ++ "=" ++ showCOut p.2))

/-- rkq <proto> <stmt> / go <g> <nvals> {| V}… / ok / fail …: after every event the goroutines that returned -/
def rkq (ws : List String) : Option String := do
  match ws with
  | p :: r0 =>
    let p ← p.toNat?
    let (st, r1) ← pStmt "t0" r0
    match r1 with
    | "/" :: r2 =>
      let evs ← (splitSteps r2).mapM pCEv
      if RoutingCache.crashes st then some "malformed-prepare"
      else some (" ; ".intercalate ((RoutingCache.Conc.Spec.run (encOf p) st (false, []) evs).map showCAns))
    | _ => none
  | _ => none

/-! ### op `rksz`: routing keys of components of given SIZES (boundaries of the [short] length) -/

/-- byte `i` of a generated component: `(fill + i*step) mod 256` -/
def genBytes (n fill step : Nat) : List UInt8 :=
  (List.range n).map (fun i => UInt8.ofNat ((fill + i * step) % 256))

/-- a linear fingerprint of a long key (every byte and its position count): `h ← (h * 1000003 + b) mod 2^32` -/
def polySum (bs : List UInt8) : Nat := bs.foldl (fun h b => (h * 1000003 + b.toNat) % 4294967296) 0

/-- `<b|s><len>.<fill hex>.<step>` -/
def pSz (w : String) : Option (List UInt8) :=
  match (w.drop 1).toString.splitOn "." with
  | [n, f, st] => do
      let n ← n.toNat?
      let f ← parseHex f
      let st ← st.toNat?
      match f with
      | [b] => if n ≤ 200000 then some (genBytes n b.toNat st) else none
      | _ => none
  | _ => none

/-- rksz <c|q|b> <comp>…: the outcome kind and the key (length, the fingerprint `polySum` of all its bytes, first bytes) of
    the components in partition-key order, through createRoutingKey / Query.GetRoutingKey / Batch.GetRoutingKey.
    `rksz` (spec-backed): every component ≤ 65535 bytes; `rkszx`: larger ones too (recorded limitation). -/
def rksz (strict : Bool) (ws : List String) : Option String :=
  match ws with
  | _ :: c :: r => do
      let cs ← (c :: r).mapM pSz
      if strict && cs.any (fun c => decide (c.length > 65535)) then some "out-of-range"
      else
        let key := if strict then Token.Spec.routingKey cs else Token.routingKey cs
        some ("key " ++ toString key.length ++ " " ++ toString (polySum key) ++ " " ++ toHex (key.take 4))
  | _ => none

/-- a canonical decimal int64 token string -/
def canonInt (s : String) : Option Int :=
  match s.toInt? with
  | some i => if toString i == s && Token.int64Min ≤ i && i ≤ Token.int64Max then some i else none
  | none => none

def canonNat (s : String) : Option Nat :=
  match s.toNat? with
  | some n => if toString n == s then some n else none
  | none => none

/-- ringsort m|r|o <token>… with "/" between the hosts: the ring's tokens in ring order -/
def ringsort (kind : String) (ws : List String) : String :=
  let toks := ws.filter (· != "/")
  match kind with
  | "m" => match toks.mapM canonInt with
      | some l => " ".intercalate ((Routing.ringSortInt l).map toString)
      | none => "bad-op"
  | "r" => match toks.mapM canonNat with
      | some l => " ".intercalate ((Routing.ringSortNat l).map toString)
      | none => "bad-op"
  | "o" => match toks.mapM parseHex with
      | some l => " ".intercalate ((Routing.ringSortLex l).map toHex)
      | none => "bad-op"
  | _ => "bad-op"

def chars (bs : List UInt8) : List Char := bs.map (fun b => Char.ofNat b.toNat)
def canonical (bs : List UInt8) : Bool :=
  let cs := chars bs
  Token.printInt (Token.parseInt64 cs) == cs

def showPart : Option Token.Partitioner → String
  | some .murmur3 => "Murmur3Partitioner"
  | some .ordered => "OrderedPartitioner"
  | some .random => "RandomPartitioner"
  | none => "err"

/-- ops (answer is compared with the implementation's answer by the check driver):
  murmur <hex>            → signed decimal int64 token
  random <hex16 digest>   → decimal token
  randomk <hex key>       → decimal token of the key (MD5 computed by the model: Model/MD5.lean)
  ordlt <hex> <hex>       → true|false
  parsem <string>         → int64 (murmur3 ParseString().String()) of a VALID token string; parsemx: any string
  rkey <hex> <hex> ...    → hex routing key of the encoded components
  qrk <c..> / <c..> / …   → one key per step (a Query object re-bound step by step)
  qrke <explicit> / <c..> / … → the explicit key at every step
  rkm …                   → routing keys through routingKeyInfo (see `rkm`)
  rkn …                   → the same with arbitrary (byte-string) column / keyspace / table names and a schema cache of
                            several keyspaces and tables (see `rkn`); rknx: outcomes the theorems do not cover
  lessm <a> <b>           → Less of two VALID (canonical decimal int64) Murmur3 token strings; lessmx: any strings
  hlessm <k1> <k2>        → Less of the Murmur3 tokens of two keys; hlessr <d1> <k1> <d2> <k2>: Random
  ringsort m|r|o …        → the token ring order
  parser <string>         → RandomPartitioner ParseString().String() of a canonical decimal integer string; parserx: sign + digits
  part <name>             → Name() of the partitioner newTokenRing selects for the class name, or err; partx: other names -/
def stepU (ws : List String) : String :=
  match ws with
  | ["murmur", h] => match parseHex h with
      | some bs => toString (Murmur.murmur3H1 bs).toInt
      | none => "bad-op"
  | ["random", h, _] => match parseHex h with
      | some bs => if bs.length = 16 then toString (Token.randomToken bs) else "bad-op"
      | none => "bad-op"
  | ["randomk", h] => match parseHex h with
      | some bs => toString (Token.randomTokenOfKey bs)
      | none => "bad-op"
  | ["ordlt", a, b] => match parseHex a, parseHex b with
      | some x, some y => toString (Token.lexLt x y)
      | _, _ => "bad-op"
  | ["parsem", h] => match parseHex h with
      | some bs => if canonical bs then toString (Token.parseInt64 (chars bs)) else "noncanonical"
      | none => "bad-op"
  | ["parsemx", h] => match parseHex h with
      | some bs => toString (Token.parseInt64 (bs.map (fun b => Char.ofNat b.toNat)))
      | none => "bad-op"
  | ["parser", h] => match parseHex h with
      | some bs => match Token.parseBig (chars bs) with
        | some n => if Token.printInt n == chars bs then toString n else "noncanonical"
        | none => "undefined"
      | none => "bad-op"
  | ["parserx", h] => match parseHex h with
      | some bs => match Token.parseBig (chars bs) with
        | some n => toString n
        | none => "undefined"
      | none => "bad-op"
  | ["part", h] => match parseHex h with
      | some bs => showPart (Token.selectPartitioner (chars bs))
      | none => "bad-op"
  | ["partx", h] => match parseHex h with
      | some bs => showPart (Token.selectPartitioner (chars bs))
      | none => "bad-op"
  | ["lessm", a, b] => match parseHex a, parseHex b with
      | some x, some y =>
        if canonical x && canonical y then
          toString (decide (Token.parseInt64 (chars x) < Token.parseInt64 (chars y)))
        else "noncanonical"
      | _, _ => "bad-op"
  | ["hlessm", a, b] => match parseHex a, parseHex b with
      | some x, some y => toString (decide ((Murmur.murmur3H1 x).toInt < (Murmur.murmur3H1 y).toInt))
      | _, _ => "bad-op"
  | ["hlessr", a, _, b, _] => match parseHex a, parseHex b with
      | some x, some y => if x.length = 16 && y.length = 16 then toString (decide (Token.randomToken x < Token.randomToken y)) else "bad-op"
      | _, _ => "bad-op"
  | "rkm" :: r => (rkm r).getD "bad-op"
  | "rkmx" :: r => (rkm r).getD "bad-op"
  | "rkq" :: r => (rkq r).getD "bad-op"
  | "rksz" :: r => (rksz true r).getD "bad-op"
  | "rkszx" :: r => (rksz false r).getD "bad-op"
  | "rkc" :: r => (rkc true r).getD "bad-op"
  | "rkcx" :: r => (rkc false r).getD "bad-op"
  | "rkn" :: r => (rkn r).getD "bad-op"
  | "rknx" :: r => (rkn r).getD "bad-op"
  | "ringsort" :: k :: r => ringsort k r
  | ["lessmx", a, b] => match parseHex a, parseHex b with
      | some x, some y => toString (decide (Token.parseInt64 (x.map (fun b => Char.ofNat b.toNat)) < Token.parseInt64 (y.map (fun b => Char.ofNat b.toNat))))
      | _, _ => "bad-op"
  | ["lessr", a, b] => match parseHex a, parseHex b with
      | some x, some y => match Token.parseBig (chars x), Token.parseBig (chars y) with
        | some m, some n => toString (decide (m < n))
        | _, _ => "undefined"
      | _, _ => "bad-op"
  | "qrk" :: cs =>
      -- one Query object re-bound step by step: the key of every step is the key of that step's values
      let steps := splitSteps cs
      match steps.mapM (fun st => st.mapM parseHex) with
      | some ls => " ".intercalate (ls.map (fun l => toHex (Token.routingKey l)))
      | none => "bad-op"
  | "qrke" :: e :: "/" :: cs =>
      -- an explicit routing key wins at every step
      match parseHex e with
      | some k => " ".intercalate ((splitSteps cs).map (fun _ => toHex k))
      | none => "bad-op"
  | "rkey-held" :: cs => match cs.mapM parseHex with
      | some l => toHex (Token.routingKey l)
      | none => "bad-op"
  | "rkey" :: cs => match cs.mapM parseHex with
      | some l => toHex (Token.routingKey l)
      | none => "bad-op"
  | _ => "bad-op"

/-! ### placement of the arguments in memory (harness/cmd/c09/placed.go): a trailing word `@<src><off>.<spare>.<fill>` -/

structure Pl where
  off : Nat
  spare : Nat
  fill : UInt8

def parsePl (w : String) : Option Pl :=
  if w.startsWith "@" then
    match ((w.drop 2).toString.splitOn ".") with
    | [o, sp, f] => do
        let o ← o.toNat?
        let sp ← sp.toNat?
        let f ← parseHex f
        match f with
        | [b] => if o < 16 then some ⟨o, sp, b⟩ else none
        | _ => none
    | _ => none
  else none

/-- the argument at word index `i` as it lies in the harness's buffer: `(off + 5*(i-1)) mod 16` foreign bytes before it
    (the address of the first byte modulo 16), `spare` bytes of capacity and 16 more foreign bytes behind -/
def placeArg (pl : Pl) (i : Nat) (key : List UInt8) : Murmur.Placed.Slice :=
  Murmur.Placed.place (List.replicate ((pl.off + 5*(i-1)) % 16) pl.fill) key (List.replicate (pl.spare + 16) pl.fill) pl.spare

def placeArgs (pl : Pl) : Nat → List (List UInt8) → List Murmur.Placed.Slice
  | _, [] => []
  | i, k :: ks => placeArg pl i k :: placeArgs pl (i+1) ks

/-- ops on PLACED arguments: the hashing ops run the model of the code on the key in memory (`Murmur.Placed`:
    unsafe 16-byte loads by address); `rktok <c1> … <cn>` = the Murmur3 token of the routing key of the blob
    components. Every other op is a function of the argument bytes in the model: the placement word is dropped. -/
def stepP (pl : Pl) (ws : List String) : String :=
  match ws with
  | ["murmur", h] => match parseHex h with
      | some bs => toString (Murmur.Placed.murmur3H1 (placeArg pl 1 bs)).toInt
      | none => "bad-op"
  | ["hlessm", a, b] => match parseHex a, parseHex b with
      | some x, some y => toString (decide ((Murmur.Placed.murmur3H1 (placeArg pl 1 x)).toInt
                                            < (Murmur.Placed.murmur3H1 (placeArg pl 2 y)).toInt))
      | _, _ => "bad-op"
  | "rktok" :: c :: cs => match (c :: cs).mapM parseHex with
      | some l => toString (Murmur.Placed.routingToken (placeArgs pl 1 l)).toInt
      | none => "bad-op"
  | _ => stepU ws

def step (_ : Unit) (ws : List String) : Unit × String :=
  ((), match ws.getLast? with
  | some w =>
    if w.startsWith "@" then
      match parsePl w with
      | some pl => stepP pl ws.dropLast
      | none => "bad-op"
    else match ws with
      | "rktok" :: c :: cs => match (c :: cs).mapM parseHex with
          | some l => toString (Murmur.murmur3H1 (Token.routingKey l)).toInt
          | none => "bad-op"
      | _ => stepU ws
  | none => "bad-op")

def init : Unit := ()
end Driver.C09
