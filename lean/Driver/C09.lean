import Model.Murmur
import Model.Token
import Driver.Util
namespace Driver.C09
open Util

/-- ops (answer is compared with the implementation's answer by the check driver):
  murmur <hex>            → signed decimal int64 token
  random <hex16 digest>   → decimal token
  ordlt <hex> <hex>       → true|false
  parsem <string>         → int64 (murmur3 ParseString().String())
  rkey <hex> <hex> ...    → hex routing key of the encoded components -/
def step (_ : Unit) (ws : List String) : Unit × String :=
  ((), match ws with
  | ["murmur", h] => match parseHex h with
      | some bs => toString (Murmur.murmur3H1 bs).toInt
      | none => "bad-op"
  | ["random", h, _] => match parseHex h with
      | some bs => if bs.length = 16 then toString (Token.randomToken bs) else "bad-op"
      | none => "bad-op"
  | ["ordlt", a, b] => match parseHex a, parseHex b with
      | some x, some y => toString (Token.lexLt x y)
      | _, _ => "bad-op"
  | ["parsem", h] => match parseHex h with
      | some bs => toString (Token.parseInt64 (bs.map (fun b => Char.ofNat b.toNat)))
      | none => "bad-op"
  | ["parser", h] => match parseHex h with
      | some bs => match Token.parseNat (bs.map (fun b => Char.ofNat b.toNat)) with
        | some n => toString n
        | none => "undefined"
      | none => "bad-op"
  | ["lessm", a, b] => match parseHex a, parseHex b with
      | some x, some y => toString (decide (Token.parseInt64 (x.map (fun b => Char.ofNat b.toNat)) < Token.parseInt64 (y.map (fun b => Char.ofNat b.toNat))))
      | _, _ => "bad-op"
  | ["lessr", a, b] => match parseHex a, parseHex b with
      | some x, some y => match Token.parseNat (x.map (fun b => Char.ofNat b.toNat)), Token.parseNat (y.map (fun b => Char.ofNat b.toNat)) with
        | some m, some n => toString (decide (m < n))
        | _, _ => "undefined"
      | _, _ => "bad-op"
  | "rkey-held" :: cs => match cs.mapM parseHex with
      | some l => toHex (Token.routingKey l)
      | none => "bad-op"
  | "rkey" :: cs => match cs.mapM parseHex with
      | some l => toHex (Token.routingKey l)
      | none => "bad-op"
  | _ => "bad-op")

def init : Unit := ()
end Driver.C09
