import Model.Murmur
import Model.Token
import Driver.Util
namespace Driver.C09
open Util

/-- split a word list at the "/" separators -/
def splitSteps (ws : List String) : List (List String) :=
  let r := ws.foldr (fun w (acc : List String × List (List String)) => if w == "/" then ([], acc.1 :: acc.2) else (w :: acc.1, acc.2)) ([], [])
  r.1 :: r.2

/-- ops (answer is compared with the implementation's answer by the check driver):
  murmur <hex>            → signed decimal int64 token
  random <hex16 digest>   → decimal token
  ordlt <hex> <hex>       → true|false
  parsem <string>         → int64 (murmur3 ParseString().String())
  rkey <hex> <hex> ...    → hex routing key of the encoded components
  qrk <c..> / <c..> / …   → one key per step (a Query object re-bound step by step)
  qrke <explicit> / <c..> / … → the explicit key at every step -/
def step (_ : Unit) (ws : List String) : Unit × String :=
  ((), match ws with
  | ["murmur", h] => match parseHex h with
      | some bs => toString (Murmur.murmur3H1 bs).toInt
      | none => "bad-op"
  | ["random", h, _] => match parseHex h with
      | some bs => if bs.length = 16 then toString (Token.randomToken bs) else "bad-op"
      | none => "bad-op"
  | ["ordlt", a, b] => match parseHex a, parseHex b with
      | some x, some y => toString (Token.lexLt x y)
      | _, _ => "bad-op"
  | ["parsem", h] => match parseHex h with
      | some bs => toString (Token.parseInt64 (bs.map (fun b => Char.ofNat b.toNat)))
      | none => "bad-op"
  | ["parser", h] => match parseHex h with
      | some bs => match Token.parseNat (bs.map (fun b => Char.ofNat b.toNat)) with
        | some n => toString n
        | none => "undefined"
      | none => "bad-op"
  | ["lessm", a, b] => match parseHex a, parseHex b with
      | some x, some y => toString (decide (Token.parseInt64 (x.map (fun b => Char.ofNat b.toNat)) < Token.parseInt64 (y.map (fun b => Char.ofNat b.toNat))))
      | _, _ => "bad-op"
  | ["lessr", a, b] => match parseHex a, parseHex b with
      | some x, some y => match Token.parseNat (x.map (fun b => Char.ofNat b.toNat)), Token.parseNat (y.map (fun b => Char.ofNat b.toNat)) with
        | some m, some n => toString (decide (m < n))
        | _, _ => "undefined"
      | _, _ => "bad-op"
  | "qrk" :: cs =>
      -- one Query object re-bound step by step: the key of every step is the key of that step's values
      let steps := splitSteps cs
      match steps.mapM (fun st => st.mapM parseHex) with
      | some ls => " ".intercalate (ls.map (fun l => toHex (Token.routingKey l)))
      | none => "bad-op"
  | "qrke" :: e :: "/" :: cs =>
      -- an explicit routing key wins at every step
      match parseHex e with
      | some k => " ".intercalate ((splitSteps cs).map (fun _ => toHex k))
      | none => "bad-op"
  | "rkey-held" :: cs => match cs.mapM parseHex with
      | some l => toHex (Token.routingKey l)
      | none => "bad-op"
  | "rkey" :: cs => match cs.mapM parseHex with
      | some l => toHex (Token.routingKey l)
      | none => "bad-op"
  | _ => "bad-op")

def init : Unit := ()
end Driver.C09
