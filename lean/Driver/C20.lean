import Model.TlsAuth
import Driver.Util
namespace Driver.C20
open Util TlsAuth

def bit (b : Bool) : String := if b then "1" else "0"

def snExample : List UInt8 := strBytes "sn.example"

/-- `nil` or `I<0|1>S<0|1>R<0|1>C<n>` -/
def parseCfg (s : String) : Option (Option UserCfg) :=
  if s == "nil" then some none else
  match s.toList with
  | 'I' :: i :: 'S' :: sn :: 'R' :: r :: 'C' :: n =>
    match (String.ofList n).toNat? with
    | some k => some (some { insecure := i == '1', serverName := if sn == '1' then snExample else [],
                              hasRootCAs := r == '1', nCerts := k })
    | none => none
  | _ => none

/-- `absent`, `valid`, `unreadable/<how>`, `unparsable/<how>`, `foreign` -/
def parseFileSt (s : String) : Option FileSt :=
  match (s.splitOn "/").head! with
  | "absent" => some .absent
  | "valid" => some .valid
  | "unreadable" => some .unreadable
  | "unparsable" => some .unparsable
  | "foreign" => some .foreign
  | _ => none

def showErr : TlsErr → String
  | .caOpen => "err:ca-open"
  | .caParse => "err:ca-parse"
  | .keyPair => "err:keypair"

def parseBool (s : String) : Option Bool :=
  match s with
  | "0" => some false | "1" => some true | "false" => some false | "true" => some true | _ => none

def parseFrame (s : String) : Option SFrame :=
  match s.splitOn ":" with
  | ["sup"] => some .supported
  | ["rdy"] => some .ready
  | ["chal"] => some .authChallenge
  | ["succ"] => some .authSuccess
  | ["err"] => some .error
  | ["other"] => some .other
  | ["auth", h] => (parseHex h).map .authenticate
  | _ => none

def parseList (s : String) : Option (List (List UInt8)) :=
  if s == "none" then some [] else (s.splitOn ",").mapM parseHex

/-- `none` or `pw:<user>:<pass>:<allowed>` -/
def parseAuth (s : String) : Option (Option PwAuth) :=
  match s.splitOn ":" with
  | ["none"] => some none
  | ["pw", u, p, a] => match parseHex u, parseHex p, parseList a with
    | some u, some p, some a => some (some { user := u, pass := p, allowed := a })
    | _, _, _ => none
  | _ => none

def showSent : Sent → String
  | .options => "options"
  | .startup => "startup"
  | .authResponse t => "authresp:" ++ toHex t

def showOutcome : Outcome → String
  | .ready => "ready"
  | .errProtocol => "err:protocol"
  | .errServer => "err:server"
  | .errAuthRequired => "err:auth-required"
  | .errUnapproved => "err:unapproved"
  | .errAuthFrame => "err:auth-frame"
  | .errClosed => "err:closed"
  | .crash => "crash"

def parseDocCfg (s : String) : Option (Option Bool) :=
  match s with
  | "nil" => some none | "false" => some (some false) | "true" => some (some true) | _ => none

/-- ops:
  tls <cfg> <ehv> <ca> <cert> <key> <spare>  → ok insecure= sn= rootcas= certs= | err:…, then callerpool=, backing=
  sni <insecure> <serverName> <addr>         → <ServerName> cloned=<0|1>
  join <host> <port>                         → address (net.JoinHostPort as used by HostnameAndPort)
  approve <class> <allowed…|none>            → true|false
  challenge <user> <pass> <allowed> <class>  → token | err
  hs <auth> <frames…>                        → sent=… outcome=…
  doc <file> <nil|false|true> <false|true>   → verify | noverify | missing (documented table) -/
def step (_ : Unit) (ws : List String) : Unit × String :=
  ((), match ws with
  | ["tls", cfg, ehv, ca, cert, key, spare] =>
    match parseCfg cfg, parseBool ehv, parseFileSt ca, parseFileSt cert, parseFileSt key, parseBool spare with
    | some cfg, some ehv, some ca, some cert, some key, some spare =>
      let o : SslOpts := { cfg := cfg, enableHostVerification := ehv, ca := ca, cert := cert, key := key }
      let r := match setupTLSConfig o with
        | .ok c => s!"ok insecure={bit c.insecure} sn={toHex c.serverName} rootcas={bit c.hasRootCAs} certs={c.nCerts}"
        | .error e => showErr e
      let pool := match cfg with
        | none => "none"
        | some c => if !c.hasRootCAs then "none" else if callerPoolMutated o then "grew" else "same"
      let backing := if callerBackingWritten o spare then "written" else "clean"
      s!"{r} callerpool={pool} backing={backing}"
    | _, _, _, _, _, _ => "bad-op"
  | ["sni", i, sn, addr] => match parseBool i, parseHex sn, parseHex addr with
    | some i, some sn, some addr =>
      let r := tlsConfigForAddr i sn addr
      s!"{toHex r.1} cloned={bit r.2}"
    | _, _, _ => "bad-op"
  | ["join", h, p] => match parseHex h, parseHex p with
    | some h, some p => toHex (joinHostPort h p)
    | _, _ => "bad-op"
  | ["approve", c, a] => match parseHex c, parseList a with
    | some c, some a => toString (approve c a)
    | _, _ => "bad-op"
  | ["challenge", u, p, a, c] => match parseHex u, parseHex p, parseList a, parseHex c with
    | some u, some p, some a, some c => match challenge { user := u, pass := p, allowed := a } c with
      | some t => toHex t
      | none => "err"
    | _, _, _, _ => "bad-op"
  | "hs" :: a :: fs => match parseAuth a, fs.mapM parseFrame with
    | some a, some fs =>
      let r := handshake a fs
      "sent=" ++ ",".intercalate (r.1.map showSent) ++ " outcome=" ++ showOutcome r.2
    | _, _ => "bad-op"
  -- property-oracle ops (spec-backed): the answer is what the PROPERTY demands; the theorems of Proofs/C20.lean
  -- say the model gives the same
  | ["verify", c, e] => match parseDocCfg c, parseBool e with            -- the documented table itself
    | some c, some e => match Spec.documented c e with
      | some true => "verify"
      | some false => "noverify"
      | none => "missing"
    | _, _ => "bad-op"
  | ["untouched", cfg, ehv, ca, cert, key, spare] =>                   -- C20_caller_config_untouched_partial (+ cex)
    match parseCfg cfg, parseBool ehv, parseFileSt ca, parseFileSt cert, parseFileSt key, parseBool spare with
    | some cfg, some ehv, some ca, some cert, some key, some spare =>
      let o : SslOpts := { cfg := cfg, enableHostVerification := ehv, ca := ca, cert := cert, key := key }
      let l := (if callerPoolMutated o then ["pool"] else []) ++ (if callerBackingWritten o spare then ["backing"] else [])
      if l.isEmpty then "untouched" else "MODIFIED:" ++ "+".intercalate l
    | _, _, _, _, _, _ => "bad-op"
  | ["badfile", ca, cert, key] => match parseFileSt ca, parseFileSt cert, parseFileSt key with   -- C20_bad_files_error
    | some ca, some cert, some key =>
      match setupTLSConfig { cfg := none, enableHostVerification := true, ca := ca, cert := cert, key := key } with
      | .ok _ => "config"
      | .error _ => "error"
    | _, _, _ => "bad-op"
  | "hsnoauth" :: fs => match fs.mapM parseFrame with                    -- C20_no_auth_no_session
    | some fs =>
      let r := handshake none fs
      (if r.2 = .ready then "ready" else "refused") ++ " credentials-sent=" ++
        bit (r.1.any (fun x => match x with | .authResponse _ => true | _ => false))
    | none => "bad-op"
  | ["disclose", a, c] => match parseAuth a, parseHex c with             -- C20_only_approved, C20_plain_token
    | some a, some c =>
      let r := handshake a [.supported, .authenticate c, .authSuccess]
      match r.1.filterMap (fun x => match x with | .authResponse t => some t | _ => none) with
      | [] => "none"
      | t :: _ => "token:" ++ toHex t
    | _, _ => "bad-op"
  | ["snihost", h, p] => match parseHex h, parseHex p with               -- C20_server_name_of_host
    | some h, some p => toHex (tlsConfigForAddr false [] (joinHostPort h p)).1
    | _, _ => "bad-op"
  | ["doc", _, c, e] => match parseDocCfg c, parseBool e with
    | some c, some e => match Spec.documented c e with
      | some true => "verify"
      | some false => "noverify"
      | none => "missing"
    | _, _ => "bad-op"
  | _ => "bad-op")

def init : Unit := ()
end Driver.C20
