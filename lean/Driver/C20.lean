import Model.TlsAuth
import Model.TlsAuthSess
import Model.TlsAuthDial
import Model.TlsAuthHist
import Driver.Util
namespace Driver.C20
open Util TlsAuth

def bit (b : Bool) : String := if b then "1" else "0"

def snExample : List UInt8 := strBytes "sn.example"

/-- `nil` or `I<0|1>S<0|1>R<0|1>C<n>` -/
def parseCfg (s : String) : Option (Option UserCfg) :=
  if s == "nil" then some none else
  match s.toList with
  | 'I' :: i :: 'S' :: sn :: 'R' :: r :: 'C' :: n =>
    match (String.ofList n).toNat? with
    | some k => some (some { insecure := i == '1', serverName := if sn == '1' then snExample else [],
                              hasRootCAs := r == '1', nCerts := k })
    | none => none
  | _ => none

/-- `absent`, `valid`, `unreadable/<how>`, `unparsable/<how>`, `foreign` -/
def parseFileSt (s : String) : Option FileSt :=
  match (s.splitOn "/").head! with
  | "absent" => some .absent
  | "valid" => some .valid
  | "unreadable" => some .unreadable
  | "unparsable" => some .unparsable
  | "foreign" => some .foreign
  | _ => none

def showErr : TlsErr → String
  | .caOpen => "err:ca-open"
  | .caParse => "err:ca-parse"
  | .keyPair => "err:keypair"

def parseBool (s : String) : Option Bool :=
  match s with
  | "0" => some false | "1" => some true | "false" => some false | "true" => some true | _ => none

def parseFrame (s : String) : Option SFrame :=
  match s.splitOn ":" with
  | ["sup"] => some .supported
  | ["rdy"] => some .ready
  | ["chal"] => some (.authChallenge [0x78])      -- the harness's default challenge payload "x"
  | ["succ"] => some (.authSuccess [])            -- null bytes
  | ["chal", h] => (parseHex h).map .authChallenge
  | ["succ", h] => (parseHex h).map .authSuccess
  | ["err"] => some .error
  | ["other"] => some .other
  | ["auth", h] => (parseHex h).map .authenticate
  | _ => none

def parseList (s : String) : Option (List (List UInt8)) :=
  if s == "none" then some [] else (s.splitOn ",").mapM parseHex

/-- `<resp>.<fail><last>` -/
def parseRound (s : String) : Option Round :=
  match s.splitOn "." with
  | [h, fl] => match parseHex h, fl.toList with
    | some r, [f, l] => some { resp := r, fail := f == '1', last := l == '1' }
    | _, _ => none
  | _ => none

/-- `none`, `pw:<user>:<pass>:<allowed>` or `cu:<round>,<round>…|none:<successFails>` -/
def parseAuth (s : String) : Option (Option AuthImpl) :=
  match s.splitOn ":" with
  | ["none"] => some none
  | ["pw", u, p, a] => match parseHex u, parseHex p, parseList a with
    | some u, some p, some a => some (some (.pw { user := u, pass := p, allowed := a }))
    | _, _, _ => none
  | ["cu", rs, sf] => match (if rs == "none" then some [] else (rs.splitOn ",").mapM parseRound), parseBool sf with
    | some rs, some sf => some (some (.custom rs sf))
    | _, _ => none
  | _ => none

/-- provider result: `nil`, `err`, `<auth>`, `<auth>+err` -/
def parseProvRes (s : String) : Option ProvRes :=
  if s == "nil" then some (.auth none)
  else if s == "err" then some (.err none)
  else match s.splitOn "+" with
    | [a] => (parseAuth a).map .auth
    | [a, "err"] => (parseAuth a).map .err
    | _ => none

/-- `-` (no provider) or `<host>=<res>/…/*=<res>`; hosts without an entry get (nil, nil) -/
def parseProvider (s : String) : Option (Option (Nat → ProvRes)) :=
  if s == "-" then some none else do
    let es ← (s.splitOn "/").mapM (fun e => match e.splitOn "=" with
      | [k, r] => do
        let r ← parseProvRes r
        if k == "*" then pure (none, r) else do
          let k ← k.toNat?
          pure (some k, r)
      | _ => none)
    let dflt := match es.find? (fun e => e.1.isNone) with | some e => e.2 | none => ProvRes.auth none
    pure (some (fun h => match es.find? (fun e => e.1 == some h) with | some e => e.2 | none => dflt))

def dropPrefix (pre s : String) : Option String :=
  if s.startsWith pre then some (s.drop pre.length).toString else none

/-- `host=<k> static=<auth> prov=<provider>` -/
def parseConn (h st pv : String) : Option (Nat × AuthCfg) := do
  let h ← (← dropPrefix "host=" h).toNat?
  let st ← parseAuth (← dropPrefix "static=" st)
  let pv ← parseProvider (← dropPrefix "prov=" pv)
  pure (h, { static := st, provider := pv })

def showSent : Sent → String
  | .options => "options"
  | .startup => "startup"
  | .authResponse t => "authresp:" ++ toHex t

def showOutcome : Outcome → String
  | .ready => "ready"
  | .errProtocol => "err:protocol"
  | .errServer => "err:server"
  | .errAuthRequired => "err:auth-required"
  | .errUnapproved => "err:unapproved"
  | .errAuthFrame => "err:auth-frame"
  | .errClosed => "err:closed"
  | .errAuthenticator => "err:authenticator"
  | .errAuthSuccess => "err:auth-success"
  | .errProvider => "err:provider"
  | .errBoth => "err:both"
  | .errTlsVerify => "err:tls-verify"
  | .errNoChallenger => "err:no-challenger"
  | .crash => "crash"

def showCall : Call → String
  | .challenge r => "c:" ++ toHex r
  | .success d => "s:" ++ toHex d

def showList (l : List String) : String := if l.isEmpty then "-" else ",".intercalate l

/-- only caller-supplied authenticators record the calls made on them -/
def isCustom : Option (Option AuthImpl) → Bool
  | some (some (.custom _ _)) => true
  | _ => false

/-- canonical rendering of a connection attempt; a process-fatal outcome is rendered `crash:<function> …` -/
def showTrace (t : Trace) (custom withProv : Bool) (pre : String := "") : String :=
  let body := pre ++ "sent=" ++ showList (t.sent.map showSent) ++
    " calls=" ++ (if custom then showList (t.calls.map showCall) else "-") ++
    (if withProv then " prov=" ++ showList (t.provCalls.map toString) else "")
  if t.outcome = .crash then "crash:authenticateHandshake " ++ body
  else body ++ " outcome=" ++ showOutcome t.outcome

def nodeName (n : String) : Option (List UInt8) :=
  match n with
  | "a" => some (strBytes "node-a.verif.example")
  | "b" => some (strBytes "node-b.verif.example")
  | _ => none

def otherNode (n : String) : String := if n == "a" then "b" else "a"

def loopback : List UInt8 := strBytes "127.0.0.1"

/-- the certificates of the end-to-end scenarios (harness/cmd/c20/child.go `getTLSEnv`) -/
def nodeCert (n kind : String) : Option ServerCert := do
  let own ← nodeName n
  let peer ← nodeName (otherNode n)
  match kind with
  | "good" => some { sans := [own, snExample, loopback], signer := .fileCA }
  | "poolgood" => some { sans := [own, snExample, loopback], signer := .poolCA }
  | "peer" => some { sans := [peer, snExample, loopback], signer := .fileCA }
  | "other" => some { sans := [strBytes "other.verif.example"], signer := .fileCA }
  | "rogue" => some { sans := [own, snExample, loopback], signer := .rogue }
  | _ => none

/-- `nil` or `I<0|1>S<0|1>R<0|1>` -/
def parseTlsCfg (s : String) : Option (Option UserCfg) :=
  if s == "nil" then some none else
  match s.toList with
  | ['I', i, 'S', sn, 'R', r] =>
    some (some { insecure := i == '1', serverName := if sn == '1' then snExample else [], hasRootCAs := r == '1', nCerts := 0 })
  | _ => none

/-- `<node>:<n|i>` → (node, the host name HostnameAndPort() yields) -/
def parseDial (s : String) : Option (String × List UInt8) :=
  match s.splitOn ":" with
  | [n, "n"] => (nodeName n).map (fun h => (n, h))
  | [n, "i"] => (nodeName n).map (fun _ => (n, loopback))
  | _ => none

/-- crypto/tls sends no server_name extension for IP literals -/
def sniOf (name : List UInt8) : List UInt8 :=
  if name.all (fun c => (48 ≤ c && c ≤ 57) || c == 46 || c == 58 || c == 91 || c == 93) then [] else name

structure TlsOp where
  o : SslOpts
  auth : Option AuthImpl
  fs : List SFrame
  certA : String
  certB : String
  dials : List String

def parseTlsOp (ws : List String) : Option TlsOp :=
  match ws with
  | cfg :: ehv :: ca :: auth :: cls :: ca' :: cb :: dials => do
    let cfg ← parseTlsCfg cfg
    let ehv ← parseBool ehv
    let ca ← parseFileSt ca
    let auth ← parseAuth auth
    let cls ← parseHex cls
    pure { o := { cfg := cfg, enableHostVerification := ehv, ca := ca, cert := .absent, key := .absent }, auth := auth,
           fs := [.supported, .authenticate cls, .authSuccess []], certA := ca', certB := cb, dials := dials }
  | _ => none

def credSent (t : Trace) : Bool := t.sent.any (fun x => match x with | .authResponse _ => true | _ => false)

/-- the scenario of the session ops: `static=<auth> prov=<provider> n<h>=<class hex | rdy>… <p|c><h>…`
    (nodes: `n2=<hex>` = the node at host 2 demands authentication advertising that class and accepts the first
    token, `n2=rdy` = it demands none; dials in order: `p<h>` = pool connection (Session.connect), `c<h>` = dial by
    the control connection (a copy of the session's connection config)) -/
structure SessOp where
  cfg : AuthCfg
  dials : List (String × Via × Nat × Spec.Node)

def parseSessOp (ws : List String) : Option SessOp :=
  match ws with
  | st :: pv :: rest => do
    let st ← parseAuth (← dropPrefix "static=" st)
    let pv ← parseProvider (← dropPrefix "prov=" pv)
    let nodeWs := rest.filter (fun w => w.startsWith "n")
    let dialWs := rest.filter (fun w => !w.startsWith "n")
    let nodes ← nodeWs.mapM (fun w => match (w.drop 1).toString.splitOn "=" with
      | [k, c] => do
        let k ← k.toNat?
        if c == "rdy" then pure (k, Spec.Node.noauth) else do
          let c ← parseHex c
          pure (k, Spec.Node.auth c)
      | _ => none)
    let dials ← dialWs.mapM (fun w => do
      let via ← (if w.startsWith "p" then some Via.pool else if w.startsWith "c" then some Via.control else none)
      let h ← (w.drop 1).toString.toNat?
      let n ← nodes.find? (fun e => e.1 == h)
      pure (w, via, h, n.2))
    if dials.isEmpty then none else pure { cfg := { static := st, provider := pv }, dials := dials }
  | _ => none

/-! ### dialling: every dialer configuration, several dials through one session (ops `dialplan`, `dialsec`) -/

def loopback6 : List UInt8 := strBytes "::1"

/-- the certificates of the dial scenarios (harness/cmd/c20/dial.go `getDialEnv`): every leaf carries the IP SANs
    127.0.0.1 and ::1; crypto/x509 matches a bracketed IPv6 ServerName against IP SANs with the brackets stripped,
    which is written here as the SAN "[::1]" -/
def dialCert (n kind : String) : Option ServerCert := do
  let own ← nodeName n
  let peer ← nodeName (otherNode n)
  let ips := [loopback, strBytes "[::1]"]
  match kind with
  | "good" => some { sans := [own, snExample] ++ ips, signer := .fileCA }
  | "poolgood" => some { sans := [own, snExample] ++ ips, signer := .poolCA }
  | "peer" => some { sans := [peer, snExample] ++ ips, signer := .fileCA }
  | "other" => some { sans := [strBytes "other.verif.example"], signer := .fileCA }
  | "rogue" => some { sans := [own, snExample] ++ ips, signer := .rogue }
  | _ => none

/-- `<node>:<kind>`: n = by name over IPv4, i = IPv4 literal without hostname, 6 = IPv6 literal without hostname,
    m = by name over IPv6, x = no valid connect address, z = port 0, f = nobody listens on the port; a trailing `!` =
    the caller's VerifyConnection callback (if SslOpts.Config is given) rejects this dial -/
def parseDialTry (certA certB : String) (s0 : String) : Option DialTry :=
  let veto := s0.endsWith "!"
  let s := if veto then (s0.dropEnd 1).toString else s0
  match s.splitOn ":" with
  | [n, k] => do
    let name ← nodeName n
    let cert ← dialCert n (if n == "a" then certA else certB)
    let p4 := strBytes (if n == "a" then "9042" else "9043")
    let p6 := strBytes (if n == "a" then "9046" else "9047")
    match k with
    | "n" => some ⟨⟨name, some loopback, p4⟩, true, cert, veto⟩
    | "i" => some ⟨⟨[], some loopback, p4⟩, true, cert, veto⟩
    | "6" => some ⟨⟨[], some loopback6, p6⟩, true, cert, veto⟩
    | "m" => some ⟨⟨name, some loopback6, p6⟩, true, cert, veto⟩
    | "x" => some ⟨⟨name, none, p4⟩, true, cert, veto⟩
    | "z" => some ⟨⟨name, some loopback, strBytes "0"⟩, true, cert, veto⟩
    | "f" => some ⟨⟨name, some loopback, strBytes "9049"⟩, false, cert, veto⟩
    | _ => none
  | _ => none

/-- `-` (no SslOpts) or `<cfg>:<ehv>:<ca>` -/
def parseSsl (s : String) : Option (Option SslOpts) :=
  if s == "-" then some none else
  match s.splitOn ":" with
  | [cfg, ehv, ca] => do
    let cfg ← parseTlsCfg cfg
    let ehv ← parseBool ehv
    let ca ← parseFileSt ca
    pure (some { cfg := cfg, enableHostVerification := ehv, ca := ca, cert := .absent, key := .absent })
  | _ => none

structure DialOp where
  c : DialCfg
  dials : List (String × DialTry)

def parseDialOp (ws : List String) : Option DialOp :=
  match ws with
  | hd :: d :: ssl :: certA :: certB :: dials => do
    let hd ← parseBool (← dropPrefix "hd=" hd)
    let d ← parseBool (← dropPrefix "d=" d)
    let ssl ← parseSsl (← dropPrefix "ssl=" ssl)
    let ds ← dials.mapM (fun w => (parseDialTry certA certB w).map (fun t => (w, t)))
    if ds.isEmpty then none else pure { c := { hostDialer := hd, dialer := d, ssl := ssl }, dials := ds }
  | _ => none

def ascii (bs : List UInt8) : String := String.ofList (bs.map (fun b => Char.ofNat b.toNat))

def showDialRes : DialRes → String
  | .caller => "caller"
  | .panicNoAddr => "crash:ConnectAddress"
  | .errNoPort => "err:no-port"
  | .errDial => "err:dial"
  | .plain => "plain"
  | .tls => "tls"
  | .errTls => "err:tls"

/-- what the harness can see of one dial: the TCP address (from the caller's Dialer, or the listener a connection
    arrived at — so not for a failed dial of the driver's own net.Dialer), the SNI the node received, the server name
    crypto/tls reports to the caller's VerifyConnection callback (ConnectionState.ServerName = the name indicated in the
    ClientHello, empty for IP literals; caller's Config and an accepted handshake only), the result, DialedHost.DisableCoalesce -/
def showDialObs (c : DialCfg) (o : DialObs) : String :=
  let tcp := match o.tcp with
    | some a => if decide (o.res = DialRes.errDial) && !c.dialer then "-" else ascii a
    | none => "-"
  let sni := match o.serverName with | some sn => toHex (sniOf sn) | none => "-"
  let callerCfg := match c.ssl with | some s => s.cfg.isSome | none => false
  let vsn := match o.serverName with
    | some sn => if callerCfg && decide (o.res = DialRes.tls) then toHex (sniOf sn) else "-"
    | none => "-"
  let co := match o.res with | .plain => "0" | .tls => "1" | _ => "-"
  s!"tcp={tcp} sni={sni} vsn={vsn} res={showDialRes o.res} coalesce-off={co}"

/-! ### histories (ops `tlshist`, `tokalias`, `tokpar`) -/

/-- `<cfg>:<ehv>:<ca>:<cert>:<key>`, cfg = `nil` | `I<0|1>S<0|1>` -/
def parseHistStep (s : String) : Option SslOpts :=
  match s.splitOn ":" with
  | [cfg, ehv, ca, cert, key] => do
    let cfg ← (if cfg == "nil" then some none else match cfg.toList with
      | ['I', i, 'S', sn] => some (some { insecure := i == '1', serverName := if sn == '1' then snExample else [],
                                           hasRootCAs := false, nCerts := 0 : UserCfg })
      | _ => none)
    let ehv ← parseBool ehv
    let ca ← parseFileSt ca
    let cert ← parseFileSt cert
    let key ← parseFileSt key
    pure { cfg := cfg, enableHostVerification := ehv, ca := ca, cert := cert, key := key }
  | _ => none

def showVerdict : Verdict → String
  | .verify => "verify" | .noverify => "noverify" | .error => "error"

/-- `<user>:<pass>:<allowed>:<class>` -/
def parseChalCall (s : String) : Option ChalCall :=
  match s.splitOn ":" with
  | [u, p, a, c] => do
    let u ← parseHex u
    let p ← parseHex p
    let a ← parseList a
    let c ← parseHex c
    pure ({ user := u, pass := p, allowed := a }, c)
  | _ => none

def showTok (t : Option (List UInt8)) : String := match t with | some t => "tok:" ++ toHex t | none => "none"

def parseDocCfg (s : String) : Option (Option Bool) :=
  match s with
  | "nil" => some none | "false" => some (some false) | "true" => some (some true) | _ => none

/-- ops:
  tls <cfg> <ehv> <ca> <cert> <key> <spare>  → ok insecure= sn= rootcas= certs= | err:…, then callerpool=, backing=
  sni <insecure> <serverName> <addr>         → <ServerName> cloned=<0|1>
  join <host> <port>                         → address (net.JoinHostPort as used by HostnameAndPort)
  approve <class> <allowed…|none>            → true|false
  challenge <user> <pass> <allowed> <class>  → token | err
  hs <auth> <frames…>                        → sent=… calls=… outcome=…   (process-fatal: crash:<function> sent=… calls=…)
  hsx host=<k> static=<auth> prov=<provider> <frames…>        → sent=… calls=… prov=… outcome=…  (Conn.init + start-up)
  newsession host=<k> static=<auth> prov=<provider> <frames…> → dials=… post=… sent=… (NewSession with a scripted dialer)
  doc <file> <nil|false|true> <false|true>   → verify | noverify | missing (documented table)
  sessx / sessauth static=<auth> prov=<provider> n<h>=<class|rdy>… <p|c><h>…  → per connection, ` | `-separated -/
def step (_ : Unit) (ws : List String) : Unit × String :=
  ((), match ws with
  | ["tls", cfg, ehv, ca, cert, key, spare] =>
    match parseCfg cfg, parseBool ehv, parseFileSt ca, parseFileSt cert, parseFileSt key, parseBool spare with
    | some cfg, some ehv, some ca, some cert, some key, some spare =>
      let o : SslOpts := { cfg := cfg, enableHostVerification := ehv, ca := ca, cert := cert, key := key }
      let r := match setupTLSConfig o with
        | .ok c => s!"ok insecure={bit c.insecure} sn={toHex c.serverName} rootcas={bit c.hasRootCAs} certs={c.nCerts}"
        | .error e => showErr e
      let pool := match cfg with
        | none => "none"
        | some c => if !c.hasRootCAs then "none" else if callerPoolMutated o then "grew" else "same"
      let backing := if callerBackingWritten o spare then "written" else "clean"
      s!"{r} callerpool={pool} backing={backing}"
    | _, _, _, _, _, _ => "bad-op"
  | ["sni", i, sn, addr] => match parseBool i, parseHex sn, parseHex addr with
    | some i, some sn, some addr =>
      let r := tlsConfigForAddr i sn addr
      s!"{toHex r.1} cloned={bit r.2}"
    | _, _, _ => "bad-op"
  | ["join", h, p] => match parseHex h, parseHex p with
    | some h, some p => toHex (joinHostPort h p)
    | _, _ => "bad-op"
  | ["approve", c, a] => match parseHex c, parseList a with
    | some c, some a => toString (approve c a)
    | _, _ => "bad-op"
  | ["challenge", u, p, a, c] => match parseHex u, parseHex p, parseList a, parseHex c with
    | some u, some p, some a, some c => match challenge { user := u, pass := p, allowed := a } c with
      | some t => toHex t
      | none => "err"
    | _, _, _, _ => "bad-op"
  | "hs" :: a :: fs => match parseAuth a, fs.mapM parseFrame with
    | some a, some fs => showTrace (handshake a fs) (isCustom (some a)) false
    | _, _ => "bad-op"
  | "hsx" :: h :: st :: pv :: fs => match parseConn h st pv, fs.mapM parseFrame with
    | some (h, cfg), some fs => showTrace (connect cfg h fs) (isCustom (Spec.credentials cfg h)) true
    | _, _ => "bad-op"
  | "newsession" :: h :: st :: pv :: fs => match parseConn h st pv, fs.mapM parseFrame with
    | some (h, cfg), some fs =>
      let r := newSession cfg h fs
      showTrace r.1 (isCustom (Spec.credentials cfg h) && r.2 != 0) true s!"dials={r.2} post={bit (r.1.outcome = .ready)} "
    | _, _ => "bad-op"
  -- property monitors evaluated by the harness on the OBSERVED trace (see harness/cmd/c20/child.go `monitor`):
  -- every trace of the model satisfies them (C20_auth_resolution, C20_no_credentials_no_session,
  -- C20_ready_only_after_success, C20_credentials_per_host, C20_custom_tokens_in_order, C20_challenge_requests,
  -- C20_success_error_fails, C20_no_crash), so the model's answer is `ok`
  | "mon" :: h :: st :: pv :: fs => match parseConn h st pv, fs.mapM parseFrame with
    | some (h, cfg), some fs =>
      if cfg.static.isSome && cfg.provider.isSome then "bad-op"
      else if (connect cfg h fs).outcome = .crash then "crash:authenticateHandshake" else "ok"
    | _, _ => "bad-op"
  -- end to end with TLS, one answer per dial (model vs code)
  | "tlsx" :: rest => match parseTlsOp rest with
    | some t =>
      match t.dials.mapM (fun d => do
        let (n, host) ← parseDial d
        let cert ← nodeCert n (if n == "a" then t.certA else t.certB)
        match dialTLS t.o host (strBytes "9042") cert t.auth t.fs with
        | .ok r => some (s!"{d} sni={toHex (sniOf r.serverName)} tls={if r.accepted then "ok" else "fail"} sent=" ++
            showList (r.trace.sent.map showSent) ++ " outcome=" ++ showOutcome r.trace.outcome)
        | .error _ => none) with
      | some l => " | ".intercalate l
      | none => "bad-op"
    | none => "bad-op"
  -- C20_credentials_only_after_verification: the SPECIFICATION side (documented table, expected name, the CA)
  | "tlscred" :: rest => match parseTlsOp rest with
    | some t =>
      match t.dials.mapM (fun d => do
        let (n, host) ← parseDial d
        let cert ← nodeCert n (if n == "a" then t.certA else t.certB)
        let go := Spec.mayProceed t.o host cert
        let cred := go && (match t.auth, t.fs with
          | some (.pw p), [_, .authenticate cls, _] => approve cls p.allowed
          | _, _ => false)
        some s!"{d} proceeded={bit go} cred={bit cred}") with
      | some l => " | ".intercalate l
      | none => "bad-op"
    | none => "bad-op"
  -- several connections of ONE session, model vs code: the full trace of every connection in order
  | "sessx" :: rest => match parseSessOp rest with
    | some o =>
      let ts := session o.cfg (o.dials.map (fun d => ⟨d.2.1, d.2.2.1, d.2.2.2.script⟩))
      " | ".intercalate ((o.dials.zip ts).map (fun (d, t) =>
        showTrace t (isCustom (Spec.credentials o.cfg d.2.2.1)) true (d.1 ++ " ")))
    | none => "bad-op"
  -- C20_auth_per_host / C20_session_observations: the SPECIFICATION side (Spec.expectFor: the host's own
  -- credentials, its own allow-list, nothing carried across connections)
  | "sessauth" :: rest => match parseSessOp rest with
    | some o =>
      if o.cfg.static.isSome && o.cfg.provider.isSome then "bad-op" else
      " | ".intercalate (o.dials.map (fun d =>
        let e := Spec.expectFor o.cfg d.2.2.1 d.2.2.2
        s!"{d.1} prov={showList (e.prov.map toString)} tok={match e.token with | some t => toHex t | none => "none"} " ++
          (if e.ready then "ready" else "refused")))
    | none => "bad-op"
  -- every dialer configuration, several dials through one session, model vs code
  | "dialplan" :: rest => match parseDialOp rest with
    | some op =>
      match connConfig op.c with
      | .error _ => "err:tlsconfig"
      | .ok k =>
        match dialAll op.c (op.dials.map (·.2)) with
        | .error _ => "err:tlsconfig"
        | .ok obs =>
          let shared := match k with
            | .caller => "none"
            | .dflt _ none => "none"
            | .dflt _ (some t) =>
              if dialFinal wrapCode (trustOf op.c) (cbOf op.c) (some t) (op.dials.map (·.2)) = some t then "same" else "ALIAS"
          " | ".intercalate ((op.dials.zip obs).map (fun (d, o) => d.1 ++ " " ++ showDialObs op.c o)) ++ " || shared=" ++ shared
    | none => "bad-op"
  -- C20_every_dialer / C20_tls_per_dial: the SPECIFICATION side (Spec.dialDemand: TLS on every connection the driver
  -- dials itself when SslOpts is set, handed on exactly when the documented table / the expected name / the CAs say so)
  | "dialsec" :: rest => match parseDialOp rest with
    | some op =>
      if op.c.hostDialer then "bad-op" else
      match op.c.ssl.map setupTLSConfig with
      | some (.error _) => "bad-op"
      | _ =>
        if op.dials.any (fun d => d.2.host.ip.isNone || d.2.host.port == strBytes "0" || !d.2.dialOk) then "bad-op" else
        " | ".intercalate (op.dials.map (fun d =>
          let e := Spec.dialDemand op.c.ssl d.2.host.name d.2.cert d.2.veto
          s!"{d.1} wrapped={bit e.wrapped} proceeded={bit e.proceeded}"))
    | none => "bad-op"
  -- credentials never show up in what the driver logs or reports (monitor evaluated by the harness on the logger
  -- output and the text of the returned error; C20_credentials_noninterference: nothing but the token depends on them)
  | "noleak" :: m :: h :: st :: pv :: fs => match parseConn h st pv, fs.mapM parseFrame with
    | some (h, cfg), some fs =>
      if m != "ns" && m != "cx" then "bad-op"
      else if (connect cfg h fs).outcome = .crash then "crash:authenticateHandshake" else "clean"
    | _, _ => "bad-op"
  -- C20_config_history_independent: sessions created one after the other in one process from the SAME caller
  -- tls.Config object / the SAME paths with the values changed in between; the SPECIFICATION side, per session
  | "tlshist" :: steps => match steps.mapM parseHistStep with
    | some os => if os.isEmpty then "bad-op" else " ".intercalate (os.map (fun o => showVerdict (Spec.sessionVerdict o)))
    | none => "bad-op"
  -- C20_tokens_not_aliased: every caller's token as re-read AFTER all the Challenge calls (tokalias: back to back;
  -- tokpar: what each node received from overlapping handshakes); the SPECIFICATION side: the own PLAIN token
  | "tokalias" :: calls => match calls.mapM parseChalCall with
    | some cs => if cs.isEmpty then "bad-op" else " ".intercalate (cs.map (fun c => showTok (challenge c.1 c.2)))
    | none => "bad-op"
  | "tokpar" :: calls => match calls.mapM parseChalCall with
    | some cs => if cs.isEmpty then "bad-op" else " ".intercalate (cs.map (fun c => showTok (challenge c.1 c.2)))
    | none => "bad-op"
  -- C20_session_config: both Authenticator and AuthProvider ⇒ refused before anything is dialled
  | "sesscfg" :: h :: st :: pv :: fs => match parseConn h st pv, fs.mapM parseFrame with
    | some (_, cfg), some _ =>
      if cfg.static.isSome && cfg.provider.isSome then "refused:both dials=0" else "accepted dials=1"
    | _, _ => "bad-op"
  -- property-oracle ops (spec-backed): the answer is what the PROPERTY demands; the theorems of Proofs/C20.lean
  -- say the model gives the same
  | ["verify", c, e] => match parseDocCfg c, parseBool e with            -- the documented table itself
    | some c, some e => match Spec.documented c e with
      | some true => "verify"
      | some false => "noverify"
      | none => "missing"
    | _, _ => "bad-op"
  | ["untouched", cfg, ehv, ca, cert, key, spare] =>                   -- C20_caller_config_untouched_partial (+ cex)
    match parseCfg cfg, parseBool ehv, parseFileSt ca, parseFileSt cert, parseFileSt key, parseBool spare with
    | some cfg, some ehv, some ca, some cert, some key, some spare =>
      let o : SslOpts := { cfg := cfg, enableHostVerification := ehv, ca := ca, cert := cert, key := key }
      let l := (if callerPoolMutated o then ["pool"] else []) ++ (if callerBackingWritten o spare then ["backing"] else [])
      if l.isEmpty then "untouched" else "MODIFIED:" ++ "+".intercalate l
    | _, _, _, _, _, _ => "bad-op"
  | ["badfile", ca, cert, key] => match parseFileSt ca, parseFileSt cert, parseFileSt key with   -- C20_bad_files_error
    | some ca, some cert, some key =>
      match setupTLSConfig { cfg := none, enableHostVerification := true, ca := ca, cert := cert, key := key } with
      | .ok _ => "config"
      | .error _ => "error"
    | _, _, _ => "bad-op"
  | "hsnoauth" :: fs => match fs.mapM parseFrame with                    -- C20_no_auth_no_session
    | some fs =>
      let r := handshake none fs
      (if r.outcome = .ready then "ready" else "refused") ++ " credentials-sent=" ++ bit (credSent r)
    | none => "bad-op"
  -- C20_no_credentials_no_session: configurations WITHOUT credentials for the dialled host (nothing configured, or a
  -- provider that hands out no authenticator for this host); the answer is the property's demand
  | "nocred" :: h :: st :: pv :: fs => match parseConn h st pv, fs.mapM parseFrame with
    | some (h, cfg), some fs =>
      if cfg.static.isSome || Spec.credentials cfg h != some none then "bad-op" else
      let ready := match fs with | .supported :: .ready :: _ => true | _ => false
      (if ready then "ready" else "refused") ++ " credentials-sent=0 challenge-calls=0"
    | _, _ => "bad-op"
  -- C20_credentials_per_host: which credentials leave the client for this host and class (the specification side:
  -- Spec.credentials + the approved list + the PLAIN token)
  | ["disclose2", h, st, pv, c] => match parseConn h st pv, parseHex c with
    | some (h, cfg), some c =>
      if cfg.static.isSome && cfg.provider.isSome then "bad-op" else
      match Spec.credentials cfg h with
      | some (some (.pw p)) => if approve c p.allowed then "token:" ++ toHex (plainToken p.user p.pass) else "none"
      | some (some (.custom _ _)) => "bad-op"
      | _ => "none"
    | _, _ => "bad-op"
  | ["disclose", a, c] => match parseAuth a, parseHex c with             -- C20_only_approved, C20_plain_token
    | some a, some c =>
      let r := handshake a [.supported, .authenticate c, .authSuccess []]
      match r.sent.filterMap (fun x => match x with | .authResponse t => some t | _ => none) with
      | [] => "none"
      | t :: _ => "token:" ++ toHex t
    | _, _ => "bad-op"
  | ["snihost", h, p] => match parseHex h, parseHex p with               -- C20_server_name_of_host
    | some h, some p => toHex (tlsConfigForAddr false [] (joinHostPort h p)).1
    | _, _ => "bad-op"
  | ["doc", _, c, e] => match parseDocCfg c, parseBool e with
    | some c, some e => match Spec.documented c e with
      | some true => "verify"
      | some false => "noverify"
      | none => "missing"
    | _, _ => "bad-op"
  -- written by the harness when it cut the campaign short because scenarios sat out the driver's own time-outs:
  -- in the model (and on the unchanged code) no scenario waits — the scripted peer answers or closes at once
  | "slowrun" :: _ => "no-scenario-waits"
  | _ => "bad-op")

def init : Unit := ()
end Driver.C20
