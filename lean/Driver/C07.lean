import Model.Writer
import Driver.Util
namespace Driver.C07
open Util Writer

def init : Unit := ()

def parseTriple (s : String) : Option Chunk :=
  match s.splitOn ":" with
  | [a, b, c] => do
    let id ← a.toNat?
    let len ← b.toNat?
    let n ← c.toNat?
    pure ⟨id, len, n⟩
  | _ => none

def parseList {α} (f : String → Option α) (s : String) : Option (List α) :=
  if s == "-" then some [] else (s.splitOn ";").mapM f

def parseOutcome (s : String) : Option (Nat × String) :=
  match s.splitOn ":" with
  | [a, b] => do let id ← a.toNat?; pure (id, b)
  | _ => none

/-- monitor = the clauses of the invariant `Writer.Inv` at quiescence (every writer has returned):
    prefix bound, each request at most once, success ⇒ whole frame present, cancelled-before-start ⇒
    no bytes, torn frame ⇒ connection closed. (That only the last piece may be torn is NOT checked:
    the unchanged code violates it, known finding KF-C07-1.) -/
def monitor (closed : Bool) (chunks : List Chunk) (outs : List (Nat × String)) : String :=
  if !(chunks.all fun c => decide (c.n ≤ c.len ∧ 0 < c.n)) then "reject:bound"
  else if !(decide (chunks.map (·.id)).Nodup) then "reject:frame-twice"
  else if !(outs.all fun (w, o) => o != "ok" || chunks.any fun c => c.id == w && c.n == c.len) then "reject:success-without-whole-frame"
  else if !(outs.all fun (w, o) => o != "cancel" || chunks.all fun c => c.id != w) then "reject:cancelled-left-bytes"
  else if !(chunks.all fun c => c.n == c.len || closed) then "reject:torn-but-open"
  else "accept"

def showAttr (rs : List (Nat × Bool)) : String :=
  " ".intercalate (rs.map fun (n, ok) => toString n ++ ":" ++ (if ok then "1" else "0"))

def step (_ : Unit) (ws : List String) : Unit × String :=
  ((), match ws with
  | "attr" :: lim :: ls => match lim.toNat?, ls.mapM String.toNat? with
      | some n, some lens => showAttr (attrib lens n)
      | _, _ => "bad-op"
  | ["trace", cl, ch, ou] =>
      match parseList parseTriple ch, parseList parseOutcome ou with
      | some chunks, some outs => monitor (cl == "closed=1") chunks outs
      | _, _ => "bad-op"
  | ["kf-d13"] =>
      match run (fun _ => 10) Writer.init C07.cexScheduleD with
      | some s => if wholeFrames s.wire then "clean" else "torn-then-complete"
      | none => "stuck"
  | _ => "bad-op")

end Driver.C07
