import Model.Writer
import Driver.Util
namespace Driver.C07
open Util Writer

def init : Unit := ()

/-! ### `trace` (timing-driven scenarios): outcome clauses on whole-run chunk lists -/

structure Tri where
  id : Nat
  len : Nat
  n : Nat

def parseTriple (s : String) : Option Tri :=
  match s.splitOn ":" with
  | [a, b, c] => do
    let id ← a.toNat?
    let len ← b.toNat?
    let n ← c.toNat?
    pure ⟨id, len, n⟩
  | _ => none

def parseList {α} (f : String → Option α) (s : String) : Option (List α) :=
  if s == "-" then some [] else (s.splitOn ";").mapM f

def parseOutcome (s : String) : Option (Nat × String) :=
  match s.splitOn ":" with
  | [a, b] => do let id ← a.toNat?; pure (id, b)
  | _ => none

/-- monitor = the clauses of the invariant `Writer.Inv` at quiescence (every writer has returned):
    prefix bound, each request at most once, success ⇒ whole frame present, cancelled-before-start ⇒
    no bytes, torn frame ⇒ connection closed. (That only the last piece may be torn is NOT checked:
    the unchanged code violates it, known finding KF-C07-1.) -/
def monitor (closed : Bool) (chunks : List Tri) (outs : List (Nat × String)) : String :=
  if !(chunks.all fun c => decide (c.n ≤ c.len ∧ 0 < c.n)) then "reject:bound"
  else if !(decide (chunks.map (·.id)).Nodup) then "reject:frame-twice"
  else if !(outs.all fun (w, o) => o != "ok" || chunks.any fun c => c.id == w && c.n == c.len) then "reject:success-without-whole-frame"
  else if !(outs.all fun (w, o) => o != "cancel" || chunks.all fun c => c.id != w) then "reject:cancelled-left-bytes"
  else if !(chunks.all fun c => c.n == c.len || closed) then "reject:torn-but-open"
  else "accept"

def showAttr (rs : List (Nat × Bool)) : String :=
  " ".intercalate (rs.map fun (n, ok) => toString n ++ ":" ++ (if ok then "1" else "0"))

/-! ### `trace2` (scheduling tier): the exact byte stream as pieces, with the return / close events in order -/

inductive Ev where
  | piece (id len off n : Nat)   -- `n` bytes of the frame (length `len`) of request `id`, from its offset `off`
  | endw (id : Nat) (ok : Bool)  -- the transport Write of that frame returned
  | ret (id : Nat) (o : String)  -- the request returned to its caller: ok | cancel (never started writing) | err | late | crash
  | sockClosed                   -- the driver closed the socket
  | idle                         -- check point: socket open and no goroutine is inside closeWithError

def nums (s : String) : Option (List Nat) := (s.splitOn ":").mapM String.toNat?

def parseEv (s : String) : Option Ev :=
  if s == "x" then some .sockClosed
  else if s == "i" then some .idle
  else
    let body := (s.drop 1).toString
    match s.front with
    | 'p' => match nums body with
      | some [a, b, c, d] => some (.piece a b c d)
      | _ => none
    | 'e' => match body.splitOn ":" with
      | [a, b] => (a.toNat?).map fun id => .endw id (b == "ok")
      | _ => none
    | 'r' => match body.splitOn ":" with
      | [a, b] => (a.toNat?).map fun id => .ret id b
      | _ => none
    | _ => none

structure MSt where
  cs : List Chunk := []       -- `Writer.glue` of the pieces so far (newest first)
  ended : List Nat := []
  returned : List Nat := []
  xseen : Bool := false
  verdict : Option String := none

def MSt.reject (m : MSt) (why : String) : MSt :=
  match m.verdict with
  | none => { m with verdict := some ("reject:" ++ why) }
  | some _ => m

def lookupLen (tab : List (Nat × Nat)) (w : Nat) : Nat :=
  match tab.find? (·.1 == w) with
  | some (_, l) => l
  | none => 0

/-- the byte-stream part of the monitor is `Writer.scanFrom` (one `addPiece`, then `framed`), whose soundness
    w.r.t. the machine is `C07_monitor_accepts_reachable` / `C07_monitor_reject_means_unframed_prefix`; the
    other clauses are `C07_nothing_after_close` (write-after-close), `C07_no_bytes_after_return`,
    `C07_success_means_whole`, `C07_cancel_before_start_no_bytes`, `C07_quiescent_open_means_whole` (torn-but-open). -/
def mstep (lens : Nat → Nat) (m : MSt) : Ev → MSt
  | .piece id len off n =>
    if m.xseen then m.reject "write-after-close"
    else if m.returned.contains id then m.reject "bytes-after-return"
    else if id == 0 then m.reject "unframed-write"
    else if len != lens id then m.reject "bound"
    else
      match scanFrom lens m.cs [⟨id, off, n⟩] with
      | some cs' => { m with cs := cs', ended := m.ended.filter (· != id) }  -- a Write of `id` is in progress
      | none =>
        let continues := match m.cs with
          | c :: _ => c.id == id && c.start + c.n == off
          | [] => false
        if !continues && (off != 0 || (m.cs.any fun c => c.id == id)) then m.reject "interleaved" else m.reject "bound"
  | .endw id _ => { m with ended := id :: m.ended }
  | .ret id o =>
    let m := { m with returned := id :: m.returned }
    if o == "crash" then m.reject "crash"
    else if o == "ok" && !(m.cs.any fun c => c.id == id && c.n == lens id) then m.reject "success-without-whole-frame"
    else if o == "cancel" && (m.cs.any fun c => c.id == id) then m.reject "cancelled-left-bytes"
    else m
  | .sockClosed => { m with xseen := true }
  | .idle =>
    if m.cs.any fun c => decide (c.n < lens c.id) && m.ended.contains c.id then m.reject "torn-but-open" else m

/-- the independent decoder's view (complete frames / trailing bytes of the raw stream) must agree with the
    pieces whenever no torn frame is followed by anything (otherwise the decoder's view is garbage by
    definition: known finding KF-C07-1) -/
def decoderAgrees (lens : Nat → Nat) (m : MSt) (bytes frames rest : Nat) : Bool :=
  let total := (m.cs.map (·.n)).foldl (· + ·) 0
  total == bytes &&
  (!(onlyLastTorn lens m.cs) ||
    match m.cs with
    | [] => frames == 0 && rest == 0
    | c :: cs => if c.n == lens c.id then frames == cs.length + 1 && rest == 0 else frames == cs.length && rest == c.n)

def lensOfEvs (evs : List Ev) : List (Nat × Nat) :=
  evs.filterMap fun
    | .piece id len _ _ => some (id, len)
    | _ => none

def kv (key s : String) : Option Nat :=
  match s.splitOn "=" with
  | [k, v] => if k == key then v.toNat? else none
  | _ => none

def monitor2 (bytes frames rest : Nat) (evs : List Ev) : String :=
  let lens := lookupLen (lensOfEvs evs)
  let m := evs.foldl (mstep lens) {}
  match m.verdict with
  | some v => v
  | none => if decoderAgrees lens m bytes frames rest then "accept" else "reject:decoder-disagrees"

/-! ### `sched`: replay of the observed schedule on the machine of `Model/Writer.lean` -/

structure SSt where
  s : St := Writer.init
  stuck : Option String := none

def acts (cfg : Cfg) (ss : SSt) (tok : String) (as : List Act) : SSt :=
  match ss.stuck with
  | some _ => ss
  | none =>
    match run cfg ss.s as with
    | some s' => { ss with s := s' }
    | none => { ss with stuck := some tok }

/-- the actions one token stands for, given the current control state of the request it names -/
def tokActs (s : St) (tok : String) : Option (List Act) :=
  let rest1 := (tok.drop 1).toString
  let rest2 := (tok.drop 2).toString
  if tok == "t" then some [.tick]
  else if tok == "+x" then some []
  else if tok.startsWith "sc" then rest2.toNat?.map fun w => [.submit w, .cancel w]
  else if tok.startsWith "+q" then rest2.toNat?.map fun w => [.enqueue w]
  else if tok.startsWith "+k" then rest2.toNat?.bind fun w =>
    match s.pc w with
    | .wrote _ false => if s.closing then none else some [.ret w, .close w]
    | _ => none
  else if tok.startsWith "+a" then
    match nums rest2 with
    | some [w, _] => some [.enter w]
    | _ => none
  else if tok.startsWith "+r" then
    match rest2.splitOn ":" with
    | [a, o] => a.toNat?.bind fun w =>
      let pc := s.pc w
      if o == "shut" then some []
      else if o == "ok" then
        match pc with
        | .wrote _ true => some [.ret w]
        | _ => none
      else if o == "cancel" then
        match pc with
        | .waiting => some [.cancel w, .ret w]
        | .cancelled => some [.ret w]
        | _ => none
      else
        match pc with
        | .idle => some []
        | .wrote _ true => some [.ret w]
        | .wrote _ false => if s.closing then some [.ret w, .close w] else some [.ret w, .close w, .cancelCtx w, .closeFinish w]
        | .closer _ => some [.cancelCtx w, .closeFinish w]
        | .cancelled => some [.ret w]
        | .waiting => if s.quit then some [.quit w, .ret w, .close w] else some [.cancel w, .ret w]
        | .queued => some ((if s.gone then [] else [.flusherQuit]) ++ [.quit w, .ret w, .close w])
        | _ => none
    | _ => none
  else if tok.startsWith "s" || tok.startsWith "h" then rest1.toNat?.map fun w => [.submit w]
  else if tok.startsWith "x" then some [.shutdown]
  else if tok.startsWith "c" then rest1.toNat?.map fun _ => []
  else if tok.startsWith "p" then
    match nums rest1 with
    | some [w, k] => some [.piece w k]
    | _ => none
  else if tok.startsWith "e" then
    match rest1.splitOn ":" with
    | [a, k] => a.toNat?.map fun w => [.endWrite w (k == "ok")]
    | _ => none
  else none

def schedStep (cfg : Cfg) (ss : SSt) (tok : String) : SSt :=
  match ss.stuck with
  | some _ => ss
  | none =>
    match tokActs ss.s tok with
    | some as => acts cfg ss tok as
    | none => { ss with stuck := some tok }

def showWire (w : List Piece) : String :=
  if w.isEmpty then "-" else ",".intercalate (w.map fun p => s!"{p.id}:{p.off}:{p.n}")

def lensOf (toks : List String) : List (Nat × Nat) :=
  toks.filterMap fun t =>
    if t.startsWith "+a" then
      match nums (t.drop 2).toString with
      | some [w, l] => some (w, l)
      | _ => none
    else none

def sched (coal wt : Bool) (toks : List String) : String :=
  let tab := lensOf toks
  let cfg : Cfg := { lens := lookupLen tab, coalesce := coal }
  let ss := toks.foldl (schedStep cfg) {}
  match ss.stuck with
  | some t => "stuck@" ++ t
  | none =>
    "ok closed=" ++ (if ss.s.closed then "1" else "0") ++ " armed=" ++ (if wt then "1" else "0") ++
      " wire=" ++ showWire ss.s.wire


/-! ### `wtrace` / `wsched` (writer-level scheduling tier): the two writers without a Conn; the scheduler also decides when
    `quit` closes (`Q` = `c.cancel()`) and when the socket closes (`X` = `c.close()`), in every order with the enqueues,
    timer ticks, pieces and Write results. -/

inductive WEv where
  | start (id len : Nat)             -- caller `id` calls writeContext with a frame of `len` bytes
  | entered (id : Nat)               -- the Write of its frame entered the transport
  | piece (id len off n : Nat)
  | endw (id : Nat) (ok : Bool)
  | tick                             -- the flusher took a timer tick (a new batch)
  | quitClosed                       -- `Q`
  | sockClosed                       -- `X`
  | gone                             -- the flusher goroutine returned
  | ret (id n : Nat) (cls : String)  -- writeContext returned (n, err): ok | cancel (ctx error) | quit (io.EOF / ErrConnectionClosed) | err
  | fin                              -- end of the scenario: quit and socket closed, every held Write ended
  | stillWaiting (id : Nat)          -- at quiescence after `Q`: the caller is still parked in writeContext's first select
  | arming                           -- `D` / `d`: the next SetWriteDeadline is made to fail / it failed (no byte is involved)

def parseWEv (s : String) : Option WEv :=
  if s == "t" then some .tick
  else if s == "Q" then some .quitClosed
  else if s == "X" then some .sockClosed
  else if s == "g" then some .gone
  else if s == "z" then some .fin
  else if s == "D" || s == "d" then some .arming
  else
    let body := (s.drop 1).toString
    match s.front with
    | 's' => match nums body with
      | some [a, b] => some (.start a b)
      | _ => none
    | 'a' => body.toNat?.map .entered
    | 'W' => body.toNat?.map .stillWaiting
    | 'p' => match nums body with
      | some [a, b, c, d] => some (.piece a b c d)
      | _ => none
    | 'e' => match body.splitOn ":" with
      | [a, b] => (a.toNat?).map fun id => .endw id (b == "ok")
      | _ => none
    | 'r' => match body.splitOn ":" with
      | [a, b, c] => match a.toNat?, b.toNat? with
        | some id, some n => some (.ret id n c)
        | _, _ => none
      | _ => none
    | _ => none

structure WSt where
  m : MSt := {}
  started : List Nat := []
  qseen : Bool := false
  torn : Bool := false        -- some Write has ended with a proper, non-empty prefix of its frame on the wire
  next : Bool := false        -- since then the writer "took the next one" (the excluded condition of known finding KF-C07-1)

def WSt.reject (w : WSt) (why : String) : WSt := { w with m := w.m.reject why }

def sentOf (m : MSt) (id : Nat) : Nat :=
  match m.cs.find? (·.id == id) with
  | some c => c.n
  | none => 0

/-- the monitor of the writer-level tier. Byte stream: `mstep` (i.e. `Writer.scanFrom`; write-after-close, bytes-after-return).
    `write-after-torn` is `C07_nothing_after_torn_partial`: once a Write has ended with a torn frame, the coalescer puts
    further bytes on the wire only through a timer tick (known finding KF-C07-1, tolerated) — never through its shutdown leg;
    for the direct writer every Write is an acquisition of the semaphore (KF-C07-1, tolerated).
    Outcomes: `C07_outcome_final` (exactly one), `C07_success_means_whole`, `C07_cancel_before_start_no_bytes`,
    `C07_quit_outcome_means_quit` / `C07_quit_disposition` (a `quit` outcome needs a closed quit channel and leaves no byte),
    `C07_outcome_counts_sent` (n = the bytes of the frame on the wire), `C07_no_writer_left_behind` (at the end everybody
    has an outcome), `C07_waiting_sees_quit` (with quit closed, a caller parked in writeContext's first select can leave:
    at quiescence none is parked there). -/
def wstep (coal : Bool) (lens : Nat → Nat) (w : WSt) : WEv → WSt
  | .start id _ => if w.started.contains id then w.reject "started-twice" else { w with started := id :: w.started }
  | .entered id =>
    if !(w.started.contains id) then w.reject "unframed-write"
    else if w.torn && !w.next && coal then w.reject "write-after-torn"
    else if w.torn && !coal then { w with next := true }
    else w
  | .piece id len off n => { w with m := mstep lens w.m (.piece id len off n) }
  | .endw id ok =>
    let w := { w with m := mstep lens w.m (.endw id ok) }
    let k := sentOf w.m id
    if !ok && 0 < k && k < lens id then { w with torn := true, next := false } else w
  | .tick => if coal then { w with next := true } else w.reject "tick-without-flusher"
  | .quitClosed => { w with qseen := true }
  | .sockClosed => { w with m := mstep lens w.m .sockClosed }
  | .gone => if w.qseen then w else w.reject "flusher-left-before-quit"
  | .ret id n cls =>
    if !(w.started.contains id) then w.reject "outcome-of-nobody"
    else if w.m.returned.contains id then w.reject "two-outcomes"
    else
      let k := sentOf w.m id
      let w := { w with m := { w.m with returned := id :: w.m.returned } }
      if cls == "ok" then (if n == lens id && k == lens id then w else w.reject "success-without-whole-frame")
      else if cls == "cancel" then (if n == 0 && k == 0 then w else w.reject "cancelled-left-bytes")
      else if cls == "quit" then
        (if !w.qseen then w.reject "closed-outcome-before-quit" else if n == 0 && k == 0 then w else w.reject "quit-left-bytes")
      else if cls == "err" then (if n == k then w else w.reject "count-mismatch")
      else w.reject "crash"
  | .fin => if w.started.all fun id => w.m.returned.contains id then w else w.reject "no-outcome"
  | .stillWaiting _ => w.reject "waiting-after-quit"
  | .arming => w

def lensOfWEvs (evs : List WEv) : List (Nat × Nat) :=
  evs.filterMap fun
    | .start id len => some (id, len)
    | _ => none

def wmonitor (coal : Bool) (bytes frames rest : Nat) (evs : List WEv) : String :=
  let lens := lookupLen (lensOfWEvs evs)
  let w := evs.foldl (wstep coal lens) {}
  match w.m.verdict with
  | some v => v
  | none => if decoderAgrees lens w.m bytes frames rest then "accept" else "reject:decoder-disagrees"

/-- the actions one token of a `wsched` line stands for -/
def wtokActs (lens : Nat → Nat) (s : St) (tok : String) : Option (List Act) :=
  let rest1 := (tok.drop 1).toString
  let rest2 := (tok.drop 2).toString
  if tok == "t" then some [.tick]
  else if tok == "Q" then some [.shutQuit]
  else if tok == "X" then some [.shutdown]
  else if tok == "+g" then some [.flusherQuit]
  else if tok == "D" || tok == "+d" then some []
  else if tok.startsWith "+q" then rest2.toNat?.map fun w => [.enqueue w]
  else if tok.startsWith "+a" then
    match nums rest2 with
    | some [w, l] => if l == lens w then some [.enter w] else none
    | _ => none
  else if tok.startsWith "+r" then
    match rest2.splitOn ":" with
    | [a, b, cls] =>
      match a.toNat?, b.toNat? with
      | some w, some n =>
        match s.pc w, cls with
        | .wrote k true, "ok" => if k == n then some [.ret w] else none
        | .wrote k false, "err" => if k == n then some [.ret w] else none
        | .waiting, "cancel" => if n == 0 then some [.cancel w, .ret w] else none
        | .waiting, "quit" => if n == 0 then some [.quit w, .ret w] else none
        -- SetWriteDeadline failed inside the critical section / at the head of `flush`: observably a Write that ends with
        -- an error before byte 0 (the rest of the batch is failed with it)
        | .waiting, "err" => if n == 0 then some [.enter w, .endWrite w false, .ret w] else none
        | .queued, "err" => if n == 0 then some [.enter w, .endWrite w false, .ret w] else none
        | .queued, "quit" => if n == 0 then some [.quit w, .ret w] else none
        | _, _ => none
      | _, _ => none
    | _ => none
  else if tok.startsWith "s" then rest1.toNat?.map fun w => [.submit w]
  -- `S<w>`: the caller's context has already ended when it reaches writeContext's first select: still one `submit`; what
  -- the select then takes is observed (`+r<w>:0:cancel` = `cancel w`, or `+a` / `+q` = the semaphore / the hand-over won)
  else if tok.startsWith "S" then rest1.toNat?.map fun w => [.submit w]
  else if tok.startsWith "c" then rest1.toNat?.map fun _ => []
  else if tok.startsWith "p" then
    match nums rest1 with
    | some [w, k] => some [.piece w k]
    | _ => none
  else if tok.startsWith "e" then
    match rest1.splitOn ":" with
    | [a, k] => a.toNat?.map fun w => [.endWrite w (k == "ok")]
    | _ => none
  else none

def wschedStep (cfg : Cfg) (ss : SSt) (tok : String) : SSt :=
  match ss.stuck with
  | some _ => ss
  | none =>
    match wtokActs cfg.lens ss.s tok with
    | some as => acts cfg ss tok as
    | none => { ss with stuck := some tok }

def b01 (b : Bool) : String := if b then "1" else "0"

def wsched (coal : Bool) (zs : String) (toks : List String) : String :=
  match parseList String.toNat? ((zs.drop 2).toString.replace "," ";") with
  | none => "bad-op"
  | some ls =>
    let cfg : Cfg := { lens := fun w => if w == 0 then 0 else ls.getD (w - 1) 0, coalesce := coal }
    let ss := toks.foldl (wschedStep cfg) {}
    match ss.stuck with
    | some t => "stuck@" ++ t
    | none =>
      "ok quit=" ++ b01 ss.s.quit ++ " gone=" ++ b01 ss.s.gone ++ " closed=" ++ b01 ss.s.closed ++ " wire=" ++ showWire ss.s.wire

def step (_ : Unit) (ws : List String) : Unit × String :=
  ((), match ws with
  | "attr" :: lim :: ls => match lim.toNat?, ls.mapM String.toNat? with
      | some n, some lens => showAttr (attrib lens n)
      | _, _ => "bad-op"
  | ["trace", cl, ch, ou] =>
      match parseList parseTriple ch, parseList parseOutcome ou with
      | some chunks, some outs => monitor (cl == "closed=1") chunks outs
      | _, _ => "bad-op"
  | "trace2" :: b :: f :: r :: evs :: _ =>
      match kv "bytes" b, kv "frames" f, kv "rest" r, parseList parseEv evs with
      | some b, some f, some r, some evs => monitor2 b f r evs
      | _, _, _, _ => "bad-op"
  | "sched" :: _ :: w :: t :: _ :: "|" :: toks => sched (w == "w=c") (t == "t=1") toks
  | "wsched" :: w :: _ :: z :: "|" :: toks => wsched (w == "w=c") z toks
  | "wtrace" :: b :: f :: r :: evs :: "|" :: w :: _ =>
      match kv "bytes" b, kv "frames" f, kv "rest" r, parseList parseWEv evs with
      | some b, some f, some r, some evs => wmonitor (w == "w=c") b f r evs
      | _, _, _, _ => "bad-op"
  | ["kf-d13"] =>
      match run { lens := fun _ => 10, coalesce := false } Writer.init C07.cexScheduleD with
      | some s => if onlyLastTorn (fun _ => 10) (glue s.wire) then "clean" else "torn-then-complete"
      | none => "stuck"
  | _ => "bad-op")

end Driver.C07
