import Model.Ring
import Driver.Util
import Driver.C16Ev
namespace Driver.C16
open Ring

structure St where
  r : Ring.Ring
  objs : List RHost
  ev : Driver.C16Ev.St := {}   -- event / refresh / propagation ops (`reset ev…`, `ev…`): Driver/C16Ev.lean

def init : St := ⟨Ring.empty, [], {}⟩

def nat (s : String) : Nat := s.toNat?.getD 0
def natList (s : String) : List Nat := if s == "-" then [] else (s.splitOn ",").map nat
def join (l : List String) : String := if l.isEmpty then "-" else ",".intercalate l

def insertSorted {β : Type} (e : Nat × β) : List (Nat × β) → List (Nat × β)
  | [] => [e]
  | x :: r => if e.1 < x.1 then e :: x :: r else x :: insertSorted e r
def sortKeys {β : Type} (l : List (Nat × β)) : List (Nat × β) := l.foldl (fun acc e => insertSorted e acc) []

/-- canonical snapshot: by-id index sorted by id (`id:obj`), by-address index sorted by address (`addr:id`), ordered list of objects -/
def snapshot (r : Ring.Ring) : String :=
  "ids=" ++ join ((sortKeys r.byId).map (fun e => toString e.1 ++ ":" ++ toString e.2.obj)) ++
  " ips=" ++ join ((sortKeys r.byIp).map (fun e => toString e.1 ++ ":" ++ toString e.2)) ++
  " list=" ++ join (r.list.map (fun h => toString h.obj))

def St.obj? (s : St) (o : Nat) : Option RHost := s.objs.find? (fun h => h.obj == o)
def showOpt : Option RHost → String | some h => toString h.obj | none => "nil"

def objsOr (pfx : String) (l : List RHost) : String :=
  if l.isEmpty then "ok" else pfx ++ join ((sortKeys (l.map (fun h => (h.obj, ())))).map (fun e => toString e.1))

/-- ops
  reset
  host <obj> <id> <addr> <caddr>       define a HostInfo object
  addm <obj>                           addHostIfMissing → "<stored obj> <existed>" + snapshot   (crash on an invalid host)
  addu <obj>                           addOrUpdate → "<stored obj>" + snapshot
  rm <id>                              removeHost → "<found>" + snapshot
  get <id> | byip <addr> | all         getHost / getHostByIP / allHosts
  refresh <filtered objs|-> <objs|->   the diff part of refreshRing (repaired) on the reported objects → "ok" + effects + snapshot
  consistent | chk                     `Ring.notFound`: hosts of the ring not found by id and by address → "ok" | "notfound:<objs>"
                                       (`consistent` is emitted only after histories satisfying `C16.HGuarded`, where the answer is PROVED "ok")
  nostale <n>                          `Ring.staleAddrs n`: addresses 0..n with a stale by-address entry → "ok" | "stale:<addrs>"
                                       (PROVED "ok" after every history: `C16.C16_stale_nil`)
  covered | chkcov                     `Ring.uncovered` → "ok" | "uncovered:<objs>"
                                       (`covered` only after `C16.RemGuarded` histories of ring operations, where the answer is PROVED "ok") -/
def step (s : St) (ws : List String) : St × String :=
  match ws with
  | ["reset"] => (init, "ok")
  | ["host", o, id, a, c] => ({ s with objs := ⟨nat o, nat id, nat a, nat c⟩ :: s.objs.filter (fun h => h.obj != nat o) }, "ok")
  | ["addm", o] => match s.obj? (nat o) with
    | none => (s, "bad-op")
    | some h => if h.invalid then (s, "crash:invalid-host") else
      let (r', e, ex) := s.r.addIfMissing h
      ({ s with r := r' }, toString e.obj ++ " " ++ toString ex ++ " " ++ snapshot r')
  | ["addu", o] => match s.obj? (nat o) with
    | none => (s, "bad-op")
    | some h => if h.invalid then (s, "crash:invalid-host") else
      let (r', e) := s.r.addOrUpdate h
      ({ s with r := r' }, toString e.obj ++ " " ++ snapshot r')
  | ["rm", id] =>
    let (r', ok) := s.r.remove (nat id)
    ({ s with r := r' }, toString ok ++ " " ++ snapshot r')
  | ["get", id] => (s, showOpt (s.r.getHost (nat id)))
  | ["byip", a] => let (h, ok) := s.r.getHostByIP (nat a); (s, showOpt h ++ " " ++ toString ok)
  | ["all"] => (s, join ((sortKeys (s.r.allHosts.map (fun h => (h.obj, ())))).map (fun e => toString e.1)))
  | ["refresh", fl, rep] =>
    let f := natList fl
    let (r', eff) := s.r.refresh (fun h => f.contains h.obj) ((natList rep).filterMap s.obj?)
    ({ s with r := r' }, "ok filled=" ++ join (eff.filled.map (fun h => toString h.obj))
      ++ " removed=" ++ join ((sortKeys (eff.removed.map (fun h => (h.obj, ())))).map (fun e => toString e.1))
      ++ " " ++ snapshot r')
  | ["nostale", n] => let l := s.r.staleAddrs (nat n)
    (s, if l.isEmpty then "ok" else "stale:" ++ join (l.map toString))
  | ["consistent"] => (s, objsOr "notfound:" s.r.notFound)
  | ["chk"] => (s, objsOr "notfound:" s.r.notFound)
  | ["covered"] => (s, objsOr "uncovered:" s.r.uncovered)
  | ["chkcov"] => (s, objsOr "uncovered:" s.r.uncovered)
  | ws => let (e, a) := Driver.C16Ev.step s.ev ws; ({ s with ev := e }, a)

end Driver.C16
