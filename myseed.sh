#!/bin/bash
# usage: myseed.sh <seeded-dir-name|patch-file> [seed]  — runs THIS worktree's check against a scratch worktree of /repo
# with the untracked hook file copied in and the patch applied.
set -u
S=$1; SEED=${2:-1}
if [ -d /work/s12e/seeded/$S ]; then P=/work/s12e/seeded/$S/patch.diff; else P=$S; fi
WT=/work/s12e-seed-$$
git -C /repo worktree add -q --detach $WT HEAD || exit 2
trap 'git -C /repo worktree remove --force $WT >/dev/null 2>&1; rm -rf $WT' EXIT
cp /repo/verif_export_c12e.go $WT/
git -C $WT apply $P || { echo "PATCH DOES NOT APPLY: $P"; exit 2; }
cd /work/s12e
export GOFLAGS=-mod=mod GOPROXY=off GOSUMDB=off GOTOOLCHAIN=local
VERIF_SEED=$SEED VERIF_REPO=$WT ./check C12 quick 2>&1 | grep -v '^KNOWN-FINDING' | tail -n 3 | cut -c1-400 | sed "s|^|[$S] |"
git -C /work/s12e checkout -- lean/Gen 2>/dev/null
