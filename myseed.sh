#!/bin/bash
# usage: myseed.sh <seed-dir-name> [tier]  — like seedrun.sh, but runs THIS worktree's check and copies the untracked c01d hook
S=$1; TIER=${2:-quick}
P=/work/s01d/seeded/$S/patch.diff
PROP=$(echo $S | cut -d- -f1)
WT=/work/s01d-seed-$$
git -C /repo worktree add -q --detach $WT HEAD || exit 2
trap 'git -C /repo worktree remove --force $WT >/dev/null 2>&1; rm -rf $WT' EXIT
cp /repo/verif_export_c01d.go $WT/
git -C $WT apply $P || { echo "PATCH DOES NOT APPLY: $P"; exit 2; }
if [ -n "$FIXDIFF" ]; then git -C $WT apply $FIXDIFF || echo "FIX DOES NOT APPLY"; fi
cd /work/s01d
VERIF_REPO=$WT ./check $PROP $TIER 2>&1 | grep -v '^KNOWN-FINDING' | tail -n 3 | cut -c1-300 | sed "s|^|[$S] |"
