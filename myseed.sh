#!/bin/bash
# usage: myseed.sh <seed-dir-name> [tier]  — like seedrun.sh, but runs THIS worktree's check (w-s19e)
S=$1; TIER=${2:-quick}
P=/work/s19e/seeded/$S/patch.diff
PROP=$(echo $S | cut -d- -f1)
WT=/work/s19e-seed-$$
git -C /repo worktree add -q --detach $WT HEAD || exit 2
trap 'git -C /repo worktree remove --force $WT >/dev/null 2>&1; rm -rf $WT' EXIT
git -C $WT apply $P || { echo "PATCH DOES NOT APPLY: $P"; exit 2; }
cd /work/s19e
VERIF_REPO=$WT ./check $PROP $TIER 2>&1 | grep -v '^KNOWN-FINDING' | tail -n 3 | cut -c1-400 | sed "s|^|[$S] |"
git -C /work/s19e checkout -q -- lean/Gen 2>/dev/null
