#!/usr/bin/env python3
"""Regenerates section 0 of DESIGN.md from design_sec0.md + the tables derived from props/*.json,
seeded/*/meta.json and known_findings.json (so the document cannot drift from what the checks use)."""
import glob, json, os, re
ROOT = os.path.dirname(os.path.abspath(__file__))


def short(s, n):
    s = " ".join(str(s).split())
    return s if len(s) <= n else s[: n - 1] + "…"


def props_table():
    out = []
    for p in sorted(glob.glob(os.path.join(ROOT, "props", "C??.json"))):
        c = json.load(open(p))
        thms = [t.split(".")[-1] for t in c["theorems"]]
        full = [t for t in thms if "_partial" not in t and "_cex" not in t]
        part = [t for t in thms if "_partial" in t]
        cex = [t for t in thms if "_cex" in t]
        out.append(f"**{c['id']}** — {short(c['level_text'], 900)}\n")
        out.append(f"* models/proofs: `{', '.join(c['lean_modules'])}`; harness `harness/cmd/{c['harness']}`"
                   f"{' (stateful op sequences)' if c.get('stateful') else ''}; technique: {c.get('technique', '')}")
        out.append(f"* theorems ({len(thms)}): " + ", ".join(f"`{t}`" for t in full)
                   + (("; partial: " + ", ".join(f"`{t}`" for t in part)) if part else "")
                   + (("; counterexamples: " + ", ".join(f"`{t}`" for t in cex)) if cex else ""))
        sb = c.get("spec_backed_ops") or []
        out.append("* spec-backed ops (a disagreement is a concrete failing input): "
                   + (", ".join(f"`{o}`" for o in sb) if sb else "none (every disagreement is a broken tie; the search looks for a crash or a property-oracle failure)"))
        for q in c.get("partial", []):
            out.append(f"* partial: {short(q, 420)}")
        out.append("")
    na = json.load(open(os.path.join(ROOT, "props", "not_applicable.json")))
    claimed = {os.path.basename(p)[:3] for p in glob.glob(os.path.join(ROOT, "props", "C??.json"))}
    rest = [e for e in na if e["property_id"] not in claimed]
    if rest:
        out.append("Not claimed (MANIFEST `not_applicable`): " + "; ".join(f"{e['property_id']}: {e['reason']}" for e in rest))
    return "\n".join(out)


def seeded_table():
    rows = ["| seeded change | property | what it breaks / needs | result of the checks | ", "|---|---|---|---|"]
    for d in sorted(glob.glob(os.path.join(ROOT, "seeded", "*", "meta.json"))):
        m = json.load(open(d))
        name = os.path.basename(os.path.dirname(d))
        res = (m.get("integrator_verified") or {}).get("result", "")
        follow = m.get("follow_up", "")
        rows.append(f"| {name} | {m.get('property')} | {short(m.get('title', ''), 110)} — needs: {short(m.get('needs_to_manifest', ''), 160)} | {short(res, 260)}{(' **Follow-up:** ' + short(follow, 260)) if follow else ''} |")
    return "\n".join(rows)


def findings_table():
    kf = json.load(open(os.path.join(ROOT, "known_findings.json")))
    rows = ["| id | property | status | what fails | excluded in / counterexample theorem |", "|---|---|---|---|---|"]
    for e in kf["findings"]:
        st = e["status"] + ((" " + e.get("commit", "")) if e["status"] == "fixed" else "")
        rows.append(f"| {e['id']} | {e['property']} | {st} | {short(e.get('what', ''), 230)} | {e.get('excluded_in') or '-'} / {e.get('cex_theorem') or '-'} |")
    return "\n".join(rows)


def main():
    sec0 = open(os.path.join(ROOT, "design_sec0.md")).read()
    for name, fn in (("props", props_table), ("seeded", seeded_table), ("findings", findings_table)):
        sec0 = re.sub(rf"<!-- TABLE:{name} BEGIN -->.*?<!-- TABLE:{name} END -->",
                      lambda _m: f"<!-- TABLE:{name} BEGIN -->\n{fn()}\n<!-- TABLE:{name} END -->", sec0, flags=re.S)
    p = os.path.join(ROOT, "DESIGN.md")
    s = open(p).read()
    if "<!-- SEC0 BEGIN -->" in s:
        s = re.sub(r"<!-- SEC0 BEGIN -->.*?<!-- SEC0 END -->", lambda _m: "<!-- SEC0 BEGIN -->\n" + sec0 + "\n<!-- SEC0 END -->", s, flags=re.S)
    else:
        i = s.index("## 1. What is being built")
        s = s[:i] + "<!-- SEC0 BEGIN -->\n" + sec0 + "\n<!-- SEC0 END -->\n\n\n" + s[i:]
    open(p, "w").write(s)
    print("DESIGN.md section 0 regenerated")


if __name__ == "__main__":
    main()
