# C10 policy-history mutation self-test. Needs a scratch copy first: rsync -a --exclude .git /repo/ /work/s10d-repo/ ; run from anywhere: python3 tools/c10_pol_mutations.py [M1 M2 ...]; delete the copy afterwards.
import subprocess, sys, shutil, os, re
SRC='/repo/policies.go'; DST='/work/s10d-repo/policies.go'
orig=open(SRC).read()
muts={
'M1 strat==nil keeps the old entry (early return)': ('''		strat := getStrategy(ks, t.logger)
		if strat != nil {''','''		strat := getStrategy(ks, t.logger)
		if strat == nil {
			return
		}
		if strat != nil {'''),
'M2 RemoveHost does not rebuild the token ring': ('''	if t.hosts.remove(host.ConnectAddress()) {
		meta := t.getMetadataForUpdate()
		meta.resetTokenRing(t.partitioner, t.hosts.get(), t.logger)''','''	if t.hosts.remove(host.ConnectAddress()) {
		meta := t.getMetadataForUpdate()'''),
'M3 AddHost: updateReplicas before resetTokenRing': ('''	if t.hosts.add(host) {
		meta := t.getMetadataForUpdate()
		meta.resetTokenRing(t.partitioner, t.hosts.get(), t.logger)
		t.updateReplicas(meta, t.getKeyspaceName())''','''	if t.hosts.add(host) {
		meta := t.getMetadataForUpdate()
		t.updateReplicas(meta, t.getKeyspaceName())
		meta.resetTokenRing(t.partitioner, t.hosts.get(), t.logger)'''),
'M4 SetPartitioner does not recompute the replicas': ('''		meta.resetTokenRing(t.partitioner, t.hosts.get(), t.logger)
		t.updateReplicas(meta, t.getKeyspaceName())
		t.metadata.Store(meta)
	}
}''','''		meta.resetTokenRing(t.partitioner, t.hosts.get(), t.logger)
		t.metadata.Store(meta)
	}
}'''),
'M5 KeyspaceChanged ignores keyspaces other than the session keyspace': ('''	meta := t.getMetadataForUpdate()
	t.updateReplicas(meta, update.Keyspace)''','''	if update.Keyspace != t.getKeyspaceName() {
		return
	}
	meta := t.getMetadataForUpdate()
	t.updateReplicas(meta, update.Keyspace)'''),
'M7 AddHosts does not recompute the replicas': ('''	meta.resetTokenRing(t.partitioner, t.hosts.get(), t.logger)
	t.updateReplicas(meta, t.getKeyspaceName())
	t.metadata.Store(meta)

	t.mu.Unlock()

	for _, host := range hosts {''','''	meta.resetTokenRing(t.partitioner, t.hosts.get(), t.logger)
	t.metadata.Store(meta)

	t.mu.Unlock()

	for _, host := range hosts {'''),
'M8 getMetadataForUpdate drops the copy of the current metadata': ('''	if metaReadOnly != nil {
		*meta = *metaReadOnly
	}''','''	if metaReadOnly != nil {
		meta.tokenRing = metaReadOnly.tokenRing
	}'''),
'M9 updateReplicas copy loop also copies the old entry of the updated keyspace': ('''	for ks, replicas := range meta.replicas {
		if ks != keyspace {
			newReplicas[ks] = replicas
		}
	}''','''	for ks, replicas := range meta.replicas {
		if ks != keyspace || len(newReplicas[ks]) == 0 {
			newReplicas[ks] = replicas
		}
	}'''),
'M11 resetTokenRing error path sets the ring to nil': ('''		logger.Printf("Unable to update the token ring due to error: %s", err)
		return''','''		logger.Printf("Unable to update the token ring due to error: %s", err)
		m.tokenRing = nil
		return'''),
'M12 HostDown removes the host from the token-aware host list': ('''func (t *tokenAwareHostPolicy) HostDown(host *HostInfo) {
	t.fallback.HostDown(host)''','''func (t *tokenAwareHostPolicy) HostDown(host *HostInfo) {
	t.RemoveHost(host)
	t.fallback.HostDown(host)'''),
'M13 unreadable schema keeps a non-empty old entry': ('''	for ks, replicas := range meta.replicas {
		if ks != keyspace {''','''	if err != nil && len(meta.replicas[keyspace]) > 1 {
		newReplicas[keyspace] = meta.replicas[keyspace]
	}
	for ks, replicas := range meta.replicas {
		if ks != keyspace {'''),
'M15 RemoveHost recomputes the wrong keyspace': ('''		meta.resetTokenRing(t.partitioner, t.hosts.get(), t.logger)
		t.updateReplicas(meta, t.getKeyspaceName())
		t.metadata.Store(meta)
	}
	t.mu.Unlock()

	t.fallback.RemoveHost(host)''','''		meta.resetTokenRing(t.partitioner, t.hosts.get(), t.logger)
		t.updateReplicas(meta, "")
		t.metadata.Store(meta)
	}
	t.mu.Unlock()

	t.fallback.RemoveHost(host)'''),
'M16 AddHost recomputes only when the ring exists already': ('''	if t.hosts.add(host) {
		meta := t.getMetadataForUpdate()
		meta.resetTokenRing(t.partitioner, t.hosts.get(), t.logger)
		t.updateReplicas(meta, t.getKeyspaceName())
		t.metadata.Store(meta)
	}''','''	if t.hosts.add(host) {
		meta := t.getMetadataForUpdate()
		if len(t.hosts.get()) <= 3 {
			meta.resetTokenRing(t.partitioner, t.hosts.get(), t.logger)
		}
		t.updateReplicas(meta, t.getKeyspaceName())
		t.metadata.Store(meta)
	}'''),
'M17 Pick looks the replicas up under the session keyspace': ('''	ht := meta.replicas[qry.Keyspace()].replicasFor(token)''','''	ht := meta.replicas[t.getKeyspaceName()].replicasFor(token)'''),
}
only=sys.argv[1:] 
env=dict(os.environ, VERIF_REPO='/work/s10d-repo', GOFLAGS='-mod=mod', GOPROXY='off', GOSUMDB='off', GOTOOLCHAIN='local')
for name,(a,b) in muts.items():
    if only and name.split()[0] not in only: continue
    if orig.count(a)!=1:
        print(name,'PATTERN COUNT',orig.count(a)); continue
    open(DST,'w').write(orig.replace(a,b))
    r=subprocess.run(['./check','C10','quick'],cwd='/work/s10d',env=env,capture_output=True,text=True)
    lines=[l for l in r.stdout.splitlines() if l.startswith(('VIOLATION','OK'))]
    print(name,'=>',' | '.join(lines)[:300])
    for l in lines:
        m=re.search(r'replay=(\S+)',l)
        if m:
            import json
            d=json.load(open('/work/s10d/'+m.group(1)))
            print('     failing_op:',str(d.get('failing_op'))[:100],'| impl:',str(d.get('impl'))[:90],'| spec/model:',str(d.get('spec_model',d.get('model')))[:90])
open(DST,'w').write(orig)
