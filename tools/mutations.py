#!/usr/bin/python3
"""mutation self-test for C16 (events tier): applies one realistic mutation at a time to a scratch copy of /repo and
runs ./check C16 quick against it (VERIF_REPO). usage: tools/mutations.py [name ...]"""
import os, subprocess, sys, json, re
WT = "/work/ev16"; SC = "/work/ev16-repo"
M = [
 ("M01-first-status-wins", "events.go", "\t\t\tevent.change = f.change\n", ""),
 ("M02-removeHost-no-policy-remove", "session.go", "\ts.policy.RemoveHost(h)\n\thostID := h.HostID()", "\thostID := h.HostID()"),
 ("M03-refresh-no-delete-prevHosts", "host_source.go", "\t\tdelete(prevHosts, h.HostID())\n", ""),
 ("M04-down-handled-as-up", "events.go", "\t\t\t\ts.handleNodeDown(f.host, f.port)", "\t\t\t\ts.handleNodeUp(f.host, f.port)"),
 ("M05-nodeDown-ignores-filter", "events.go", "\t\tif s.cfg.filterHost(host) {\n\t\t\treturn\n\t\t}\n\n\t\ts.policy.HostDown(host)", "\t\ts.policy.HostDown(host)"),
 ("M06-validPeer-accepts-empty-tokens", "host_source.go", "\t\thost.rack == \"\" ||\n\t\tlen(host.tokens) == 0)", "\t\thost.rack == \"\")"),
 ("M07-topology-event-no-refresh", "events.go", "\tif topologyEventReceived && !s.cfg.Events.DisableTopologyEvents {", "\tif topologyEventReceived && s.cfg.Events.DisableTopologyEvents {"),
 ("M08-unknown-up-no-refresh", "events.go", "\tif !ok {\n\t\ts.debounceRingRefresh()\n\t\treturn\n\t}\n\n\tif s.cfg.filterHost(host) {\n\t\treturn\n\t}\n\n\tif d :=", "\tif !ok {\n\t\treturn\n\t}\n\n\tif s.cfg.filterHost(host) {\n\t\treturn\n\t}\n\n\tif d :="),
 ("M09-connected-no-hostup", "events.go", "\tif !s.cfg.filterHost(host) {\n\t\ts.policy.HostUp(host)\n\t}\n", ""),
 ("M10-nodeDown-keeps-pool", "events.go", "\t\thostID := host.HostID()\n\t\ts.pool.removeHost(hostID)\n", ""),
 ("M11-address-change-no-remove", "host_source.go", "\t\t\t\tr.session.removeHost(existing)\n", ""),
 ("M12-refresh-ignores-filter", "host_source.go", "\tfor _, h := range hosts {\n\t\tif r.session.cfg.filterHost(h) {\n\t\t\tcontinue\n\t\t}\n\n\t\tif host, ok := r.session.ring.addHostIfMissing(h); !ok {", "\tfor _, h := range hosts {\n\t\tif host, ok := r.session.ring.addHostIfMissing(h); !ok {"),
 ("M13-nodeDown-no-setState", "events.go", "\t\thost.setState(NodeDown)\n", ""),
 ("M14-validPeer-ignores-rack", "host_source.go", "\t\thost.rack == \"\" ||\n", ""),
 ("M15-refresh-debounce-never-arms", "host_source.go", "\td.timer.Reset(d.interval)\n}", "}"),
 ("M16-reconnect-no-refresh", "control.go", "\terr = c.session.refreshRing()\n\tif err != nil {\n\t\tc.session.logger.Printf(\"gocql: unable to refresh ring: %v\\n\", err)\n\t}\n", "\t_ = err\n"),
 ("M17-removeHost-no-pool-remove", "session.go", "\ts.pool.removeHost(hostID)\n\ts.ring.removeHost(hostID)", "\ts.ring.removeHost(hostID)"),
 ("M18-startPoolFill-no-policy-add", "events.go", "\ts.pool.addHost(host)\n\ts.policy.AddHost(host)\n}", "\ts.pool.addHost(host)\n}"),
 ("M19-new-host-no-poolfill", "host_source.go", "\t\tif host, ok := r.session.ring.addHostIfMissing(h); !ok {\n\t\t\tr.session.startPoolFill(h)\n\t\t} else {", "\t\tif host, ok := r.session.ring.addHostIfMissing(h); !ok {\n\t\t\t_ = host\n\t\t} else {"),
 ("M20-vanished-hosts-not-removed", "host_source.go", "\tfor _, host := range prevHosts {\n\t\tr.session.removeHost(host)\n\t}\n", ""),
 ("M21-up-event-ignores-filter", "events.go", "\tif s.cfg.filterHost(host) {\n\t\treturn\n\t}\n\n\tif d := host.Version()", "\tif d := host.Version()"),
 ("M22-getHostByIP-by-connect-address", "ring.go", "\t\tr.hostIPToUUID[host.nodeToNodeAddress().String()] = hostID", "\t\tr.hostIPToUUID[host.ConnectAddress().String()] = hostID"),
 ("M23-status-events-not-registered", "control.go", "\tif !c.session.cfg.Events.DisableNodeStatusEvents {\n\t\tevents = append(events, \"STATUS_CHANGE\")\n\t}\n", ""),
 ("M24-event-debouncer-drops-first-frame", "events.go", "\tgo e.callback(e.events)\n", "\tgo e.callback(e.events[1:])\n"),
 ("M25-reconnect-does-not-register-events", "control.go", "\tif err := c.registerEvents(conn); err != nil {\n\t\treturn fmt.Errorf(\"register events: %v\", err)\n\t}\n", "\tif c.session.initialized() {\n\t} else if err := c.registerEvents(conn); err != nil {\n\t\treturn fmt.Errorf(\"register events: %v\", err)\n\t}\n"),
 ("M26-node-address-from-rpc", "host_source.go", "\tif validIpAddr(h.broadcastAddress) {\n\t\treturn h.broadcastAddress\n\t} else if validIpAddr(h.peer) {\n\t\treturn h.peer\n\t}\n\treturn net.IPv4zero", "\tif validIpAddr(h.broadcastAddress) {\n\t\treturn h.broadcastAddress\n\t} else if validIpAddr(h.rpcAddress) {\n\t\treturn h.rpcAddress\n\t}\n\treturn net.IPv4zero"),
 ("M27-refresh-now-lost", "host_source.go", "\t\tcase d.refreshNowCh <- struct{}{}:\n", "\t\tcase <-d.quit:\n"),
]
env = dict(os.environ, GOFLAGS="-mod=mod", GOPROXY="off", GOSUMDB="off", GOTOOLCHAIN="local", VERIF_REPO=SC)
sel = sys.argv[1:]
res = []
for name, f, old, new in M:
    if sel and not any(name.startswith(x) for x in sel): continue
    subprocess.run(["rsync", "-a", "--delete", "--exclude", ".git", "/repo/", SC + "/"], check=True)
    p = os.path.join(SC, f); s = open(p).read()
    if s.count(old) != 1:
        res.append((name, "PATTERN-COUNT=%d" % s.count(old), "")); print(res[-1]); continue
    open(p, "w").write(s.replace(old, new))
    b = subprocess.run(["go", "build", "./..."], cwd=SC, env=env, capture_output=True, text=True)
    if b.returncode != 0:
        res.append((name, "DOES-NOT-COMPILE", b.stderr[-300:])); print(res[-1]); continue
    c = subprocess.run(["./check", "C16", "quick"], cwd=WT, env=env, capture_output=True, text=True)
    out = [l for l in c.stdout.splitlines() if l.startswith(("OK", "VIOLATION"))]
    line = out[-1] if out else c.stdout[-200:]
    detail = ""
    m = re.search(r"replay=(\S+)", line)
    if m:
        try:
            d = json.load(open(os.path.join(WT, m.group(1))))
            detail = "%s | failing_op=%s | impl=%s | spec=%s" % (d.get("kind"), d.get("failing_op"), str(d.get("impl"))[:110], str(d.get("spec_model", d.get("model")))[:110])
        except Exception as e:
            detail = str(e)
    verdict = "CAUGHT(input)" if line.startswith("VIOLATION") and "no-failing-input" not in line else ("CAUGHT(tie-only)" if line.startswith("VIOLATION") else "MISSED")
    res.append((name, verdict, detail)); print(name, verdict, detail, flush=True)
subprocess.run(["rm", "-rf", SC])
