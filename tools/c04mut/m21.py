import sys
# unmarshalInet *net.IP / string: keep on empty
p=sys.argv[1]+'/marshal.go'; s=open(p).read()
old="""	case *string:
		if len(data) == 0 {
			*v = ""
			return nil
		}
		ip := net.IP(data)"""
assert old in s
s=s.replace(old,"""	case *string:
		if len(data) == 0 {
			return nil
		}
		ip := net.IP(data)""",1)
open(p,'w').write(s)
