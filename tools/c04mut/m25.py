import sys
# unmarshalTimestamp *time.Time: sub-second part scaled as microseconds
p=sys.argv[1]+'/marshal.go'; s=open(p).read()
old="""		nsec := (x - sec*1000) * 1000000
		*v = time.Unix(sec, nsec).In(time.UTC)"""
assert old in s
s=s.replace(old,"""		nsec := (x - sec*1000) * 1000
		*v = time.Unix(sec, nsec).In(time.UTC)""")
open(p,'w').write(s)
