import sys
# unmarshalVarchar *string: null keeps the previous row's string
p=sys.argv[1]+'/marshal.go'; s=open(p).read()
old="""	case *string:
		*v = string(data)
		return nil
	case *[]byte:
		if data != nil {"""
assert old in s
s=s.replace(old,"""	case *string:
		if data != nil {
			*v = string(data)
		}
		return nil
	case *[]byte:
		if data != nil {""")
open(p,'w').write(s)
