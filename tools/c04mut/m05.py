import sys
# unmarshalMap *map[K]V: null keeps the previous map
p=sys.argv[1]+'/marshal.go'; s=open(p).read()
old="""	if data == nil {
		rv.Set(reflect.Zero(t))
		return nil
	}
	n, p, err := readCollectionSize(mapInfo, data)"""
assert old in s
s=s.replace(old,"""	if data == nil {
		return nil
	}
	n, p, err := readCollectionSize(mapInfo, data)""")
open(p,'w').write(s)
