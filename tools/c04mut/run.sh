#!/bin/bash
# usage: tools/c04mut/run.sh [m01 m02 …]   — applies each edit script to a fresh scratch copy of /repo (/work/s04b-repo),
# runs this worktree's ./check C04 quick against it (VERIF_REPO) and prints verdict + failing input. /repo is never touched.
export GOFLAGS=-mod=mod GOPROXY=off GOSUMDB=off GOTOOLCHAIN=local
D=$(cd $(dirname $0) && pwd); HERE=$(cd $D/../.. && pwd)
R=/work/s04b-repo
L=${@:-$(cd $D && ls m*.py | sed 's/\.py$//')}
for name in $L; do
  rsync -a --delete --exclude .git /repo/ $R/
  python3 $D/$name.py $R || { echo "== $name: EDIT FAILED"; continue; }
  (cd $R && go build . 2>&1 | head -5)
  cd $HERE
  out=$(VERIF_REPO=$R ./check C04 quick 2>&1 | grep -v KNOWN | tail -1 | cut -c1-200)
  echo "== $name [$(sed -n 2p $D/$name.py | cut -c1-110)]: $out"
  rp=$(echo "$out" | grep -o 'replays/[^ ]*' | head -1)
  if [ -n "$rp" ]; then python3 - "$HERE/$rp" <<'P'
import json,sys
r=json.load(open(sys.argv[1]))
print('   op  :',r.get('failing_op','')[:260]); print('   impl:',r.get('impl','')[-160:]); print('   spec:',(r.get('spec_model') or r.get('model',''))[-160:])
P
  fi
done
rm -rf $R
