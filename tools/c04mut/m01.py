import sys,re
# unmarshalVarchar *[]byte: null no longer sets nil (the seeded change C04-4)
p=sys.argv[1]+'/marshal.go'; s=open(p).read()
old="""		if data != nil {
			*v = append((*v)[:0], data...)
		} else {
			*v = nil
		}"""
assert old in s
s=s.replace(old,"""		*v = append((*v)[:0], data...)""")
open(p,'w').write(s)
