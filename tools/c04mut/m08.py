import sys
# unmarshalUUID *UUID: null / empty keeps the previous UUID
p=sys.argv[1]+'/marshal.go'; s=open(p).read()
old="""		case *UUID:
			*v = UUID{}
		default:"""
assert old in s
s=s.replace(old,"""		case *UUID:
		default:""")
open(p,'w').write(s)
