import sys
# unmarshalUDT *map[string]interface{}: null keeps the previous map
p=sys.argv[1]+'/marshal.go'; s=open(p).read()
old="""		} else if data == nil {
			rv.Set(reflect.Zero(t))
			return nil
		}

		rv.Set(reflect.MakeMap(t))"""
assert old in s
s=s.replace(old,"""		} else if data == nil {
			return nil
		}

		rv.Set(reflect.MakeMap(t))""")
open(p,'w').write(s)
