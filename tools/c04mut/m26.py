import sys
# unmarshalDate *time.Time: day offset computed in int32 (wraps for days before 1970)
p=sys.argv[1]+'/marshal.go'; s=open(p).read()
old="""		timestamp := (int64(current) - int64(origin)) * millisecondsInADay
		*v = time.UnixMilli(timestamp).In(time.UTC)
		return nil
	case *string:"""
assert old in s
s=s.replace(old,"""		timestamp := int64(current-origin) * millisecondsInADay
		*v = time.UnixMilli(timestamp).In(time.UTC)
		return nil
	case *string:""")
open(p,'w').write(s)
