import sys
# unmarshalTimestamp *time.Time through microseconds: time.UnixMicro(x*1000) overflows beyond +-9.2e15 ms
p=sys.argv[1]+'/marshal.go'; s=open(p).read()
old="""		sec := x / 1000
		nsec := (x - sec*1000) * 1000000
		*v = time.Unix(sec, nsec).In(time.UTC)"""
assert old in s
s=s.replace(old,"""		*v = time.UnixMicro(x * 1000).In(time.UTC)""")
open(p,'w').write(s)
