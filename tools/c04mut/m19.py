import sys
# inf.Dec: reuse the destination's big.Int (SetBytes-like) - a plausible optimisation that keeps the scale on null
p=sys.argv[1]+'/marshal.go'; s=open(p).read()
old="""	case *int64:
		*v = int64Val
		return nil"""
assert old in s
s=s.replace(old,"""	case *int64:
		if int64Val != 0 || len(data) > 0 {
			*v = int64Val
		}
		return nil""",1)
open(p,'w').write(s)
