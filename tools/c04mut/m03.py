import sys
# unmarshalNullable (**T): null keeps the previous pointer
p=sys.argv[1]+'/marshal.go'; s=open(p).read()
old="""	if isNullData(info, data) {
		nilValue := reflect.Zero(valueRef.Type().Elem())
		valueRef.Elem().Set(nilValue)
		return nil
	}"""
assert old in s
s=s.replace(old,"""	if isNullData(info, data) {
		return nil
	}""")
open(p,'w').write(s)
