import sys
# unmarshalVarchar *[]byte: appends to the previous row's bytes
p=sys.argv[1]+'/marshal.go'; s=open(p).read()
old="""			*v = append((*v)[:0], data...)"""
assert old in s
s=s.replace(old,"""			*v = append(*v, data...)""")
open(p,'w').write(s)
