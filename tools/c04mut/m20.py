import sys
# unmarshalNullable: reuse the pointee when the destination already points somewhere (in-place update through **T)
p=sys.argv[1]+'/marshal.go'; s=open(p).read()
old="""	newValue := reflect.New(valueRef.Type().Elem().Elem())
	valueRef.Elem().Set(newValue)
	return Unmarshal(info, data, newValue.Interface())"""
assert old in s
s=s.replace(old,"""	if !valueRef.Elem().IsNil() {
		return Unmarshal(info, data, valueRef.Elem().Interface())
	}
	newValue := reflect.New(valueRef.Type().Elem().Elem())
	valueRef.Elem().Set(newValue)
	return Unmarshal(info, data, newValue.Interface())""",1)
open(p,'w').write(s)
