import sys
# iterScanner.Scan: column slot kept from the previous row when the cell is null
p=sys.argv[1]+'/session.go'; s=open(p).read()
old="""		is.cols[i] = col
"""
assert old in s
s=s.replace(old,"""		if col != nil {
			is.cols[i] = col
		}
""")
open(p,'w').write(s)
