import sys
# unmarshalDate *time.Time through nanoseconds: time.Unix(0, days*86400e9) wraps outside 1677..2262
p=sys.argv[1]+'/marshal.go'; s=open(p).read()
old="""		*v = time.UnixMilli(timestamp).In(time.UTC)
		return nil
	case *string:"""
assert old in s
s=s.replace(old,"""		*v = time.Unix(0, timestamp*int64(time.Millisecond)).In(time.UTC)
		return nil
	case *string:""")
open(p,'w').write(s)
