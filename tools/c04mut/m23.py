import sys
# unmarshalUDT into a struct: a null / empty value no longer resets the struct
p=sys.argv[1]+'/marshal.go'; s=open(p).read()
old="""	if len(data) == 0 {
		if k.CanSet() {
			k.Set(reflect.Zero(k.Type()))
		}

		return nil
	}"""
assert old in s
s=s.replace(old,"""	if len(data) == 0 {
		return nil
	}""")
open(p,'w').write(s)
