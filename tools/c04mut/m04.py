import sys
# unmarshalList *[]T: null keeps the previous slice
p=sys.argv[1]+'/marshal.go'; s=open(p).read()
old="""			if rv.IsNil() {
				return nil
			}
			rv.Set(reflect.Zero(t))
			return nil"""
assert old in s
s=s.replace(old,"""			return nil""")
open(p,'w').write(s)
