#!/bin/bash
# usage: tools/c04mut/seed.sh <seeded dir name> [tier]  — like seedrun.sh, but runs THIS worktree's ./check C04
# against a scratch worktree of /repo with the seeded patch applied (never touches /repo's files)
export GOFLAGS=-mod=mod GOPROXY=off GOSUMDB=off GOTOOLCHAIN=local
HERE=$(cd $(dirname $0)/../.. && pwd)
S=$1; T=${2:-quick}
P=$HERE/seeded/$S/patch.diff
WT=/work/s04b-seed-$$
git -C /repo worktree add -q --detach $WT HEAD || exit 2
trap 'git -C /repo worktree remove --force $WT >/dev/null 2>&1; rm -rf $WT' EXIT
git -C $WT apply $P || { echo "PATCH DOES NOT APPLY: $P"; exit 2; }
cd $HERE
out=$(VERIF_REPO=$WT ./check C04 $T 2>&1 | grep -v '^KNOWN-FINDING' | tail -n 2 | cut -c1-300)
echo "[$S] $out"
rp=$(echo "$out" | grep -o 'replays/[^ ]*' | head -1)
if [ -n "$rp" ]; then python3 - "$HERE/$rp" <<'P'
import json,sys
r=json.load(open(sys.argv[1]))
print('   op  :',r.get('failing_op','')[:300]); print('   impl:',r.get('impl','')[-200:]); print('   spec:',(r.get('spec_model') or r.get('model',''))[-200:])
P
fi
