import sys
# unmarshalUUID *[]byte: appends into the previous backing array / null gives empty instead of nil
p=sys.argv[1]+'/marshal.go'; s=open(p).read()
old="""		*v = u[:]
		return nil"""
assert old in s
s=s.replace(old,"""		*v = append((*v)[:0], u[:]...)
		return nil""")
s2=s.replace("""		case *[]byte:
			*v = nil
		case *UUID:""","""		case *[]byte:
			*v = (*v)[:0]
		case *UUID:""")
assert s2!=s
open(p,'w').write(s2)
