import sys
# unmarshalInt: null keeps the previous int
p=sys.argv[1]+'/marshal.go'; s=open(p).read()
old="""func unmarshalInt(info TypeInfo, data []byte, value interface{}) error {
"""
assert old in s
s=s.replace(old,old+"""	if data == nil {
		return nil
	}
""")
open(p,'w').write(s)
