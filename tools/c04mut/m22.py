import sys
# unmarshalDuration: keep on null
p=sys.argv[1]+'/marshal.go'; s=open(p).read()
old="""		if len(data) == 0 {
			*v = Duration{
				Months:      0,
				Days:        0,
				Nanoseconds: 0,
			}
			return nil"""
assert old in s
s=s.replace(old,"""		if len(data) == 0 {
			return nil""",1)
open(p,'w').write(s)
