import sys
# unmarshalTime *time.Duration: null keeps the previous duration
p=sys.argv[1]+'/marshal.go'; s=open(p).read()
old="""	case *time.Duration:
		*v = time.Duration(decBigInt(data))"""
assert old in s, "dur"
s=s.replace(old,"""	case *time.Duration:
		if data != nil {
			*v = time.Duration(decBigInt(data))
		}""",1)
open(p,'w').write(s)
