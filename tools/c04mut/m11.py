import sys
p=sys.argv[1]+'/marshal.go'; s=open(p).read()
old="""			rv.Set(reflect.MakeSlice(t, n, n))"""
assert old in s
s=s.replace(old,"""			if rv.Cap() >= n {
				rv.SetLen(n)
			} else {
				rv.Set(reflect.MakeSlice(t, n, n))
			}""")
open(p,'w').write(s)
