import sys
# unmarshalList *[]T: reuses the destination's backing array when its capacity suffices (stale elements seen by element unmarshal)
p=sys.argv[1]+'/marshal.go'; s=open(p).read()
old="""			rv.Set(reflect.MakeSlice(t, n, n))"""
assert old in s
s=s.replace(old,"""			if rv.Cap() >= n {
				rv.SetLen(n)
			} else {
				rv.Set(reflect.MakeSlice(t, n, n))
			}""")
open(p,'w').write(s)
