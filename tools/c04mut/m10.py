import sys
# unmarshalBool: null / empty keeps the previous bool
p=sys.argv[1]+'/marshal.go'; s=open(p).read()
old="""func unmarshalBool(info TypeInfo, data []byte, value interface{}) error {
"""
assert old in s
s=s.replace(old,old+"""	if len(data) == 0 {
		return nil
	}
""")
open(p,'w').write(s)
