import sys,re
# unmarshalMap: the map is only made when nil (entries of earlier rows stay)
p=sys.argv[1]+'/marshal.go'; s=open(p).read()
m=re.search(r"\trv\.Set\(reflect\.MakeMapWithSize\(t, n\)\)", s)
assert m
s=s.replace(m.group(0),"\tif rv.IsNil() {\n\t\trv.Set(reflect.MakeMapWithSize(t, n))\n\t}")
open(p,'w').write(s)
