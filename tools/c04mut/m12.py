import sys
# session.go scanColumn tuple: a null tuple cell skips its destinations instead of nulling them
p=sys.argv[1]+'/session.go'; s=open(p).read()
old="""		count := len(tuple.Elems)
"""
assert old in s
s=s.replace(old,old+"""		if p == nil {
			return count, nil
		}
""",1)
open(p,'w').write(s)
