import sys
p=sys.argv[1]+'/session.go'; s=open(p).read()
old="""		count := len(tuple.Elems)
"""
assert old in s
s=s.replace(old,old+"""		if p == nil {
			return count, nil
		}
""",1)
open(p,'w').write(s)
