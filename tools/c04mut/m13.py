import sys
# unmarshalTuple into []interface{}: null elements are skipped
p=sys.argv[1]+'/marshal.go'; s=open(p).read()
old="""			err := Unmarshal(elem, p, v[i])
			if err != nil {
				return err
			}"""
assert old in s
s=s.replace(old,"""			if p == nil {
				continue
			}
			err := Unmarshal(elem, p, v[i])
			if err != nil {
				return err
			}""")
open(p,'w').write(s)
