import sys
# unmarshalTimestamp *time.Time: an empty value keeps the previous time
p=sys.argv[1]+'/marshal.go'; s=open(p).read()
old="""		if len(data) == 0 {
			*v = time.Time{}
			return nil
		}
		x := decBigInt(data)"""
assert old in s
s=s.replace(old,"""		if len(data) == 0 {
			return nil
		}
		x := decBigInt(data)""")
open(p,'w').write(s)
