#!/bin/bash
# usage: tools/evdiff.sh [seed] [tier]  — build harness, run, run model, show first diffs (developer helper)
cd /work/ev16
export GOFLAGS=-mod=mod GOPROXY=off GOSUMDB=off GOTOOLCHAIN=local
S=${1:-1}; T=${2:-quick}
(cd harness && go build -tags "verif verif_c16" -o ../.build/c16 ./cmd/c16) || exit 1
rm -rf /tmp/ev16out; VERIF_SEED=$S .build/c16 run $T /tmp/ev16out || exit 1
lean/.lake/build/bin/vdrv C16 < /tmp/ev16out/ops.txt > /tmp/ev16out/model.txt
/usr/bin/python3 - <<'PY'
ops=open('/tmp/ev16out/ops.txt').read().split('\n')
impl=open('/tmp/ev16out/impl.txt').read().split('\n')
model=open('/tmp/ev16out/model.txt').read().split('\n')
n=0; last=0; shown=0; lastshown=-1
for i,(o,a,b) in enumerate(zip(ops,impl,model)):
    if o.startswith('reset'): last=i
    if a!=b:
        n+=1
        if shown<4 and last!=lastshown:
            shown+=1; lastshown=last
            print("LINE",i); print("\n".join(ops[last:i+1][-14:])); print(" impl :",a); print(" model:",b)
print("diffs",n,"of",len(ops))
PY
