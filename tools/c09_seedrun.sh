#!/bin/bash
# usage: tools/c09_seedrun.sh <C09-n|patchfile> : run ./check C09 quick against a scratch worktree of /repo + hook d + patch
S=$1
if [ -d /work/s09d/seeded/$S ]; then P=/work/s09d/seeded/$S/patch.diff; else P=$S; fi
WT=/work/s09d-seed-$$
git -C /repo worktree add -q --detach $WT HEAD || exit 2
trap 'git -C /repo worktree remove --force $WT >/dev/null 2>&1; rm -rf $WT' EXIT
cp /repo/verif_export_c09d.go $WT/
git -C $WT apply $P || { echo "PATCH DOES NOT APPLY: $P"; exit 2; }
cd /work/s09d
VERIF_REPO=$WT ./check C09 quick 2>&1 | grep -v '^KNOWN-FINDING' | tail -n 3 | cut -c1-700 | sed "s|^|[$S] |"
