#!/usr/bin/env python3
"""usage: applyfix.py <Cxx> <KF-id>  — applies props/<Cxx>.fixed.json's diff for the finding to /repo (test-file hunks stripped),
commits it there as a `fix:` commit with the recorded message, and marks the entry fixed in known_findings.json."""
import json, re, subprocess, sys
pid, kf = sys.argv[1:3]
ent = [e for e in json.load(open(f'/verif/props/{pid}.fixed.json')) if e['id'] == kf][0]
d = open('/verif/' + ent['diff']).read()
parts = re.split(r'(?m)^(?=diff --git |--- a/)', d)
# group '--- a/x' + following text as one part when the diff has no 'diff --git' headers
keep = ''.join(p for p in parts if p.strip() and '_test.go' not in p.split('\n', 1)[0])
open('/tmp/applyfix.diff', 'w').write(keep)
subprocess.run(['git', '-C', '/repo', 'apply', '-p1', '/tmp/applyfix.diff'], check=True)
subprocess.run(['go', 'build', './...'], cwd='/repo', check=True)
msg = ent['commit_message']
assert msg.startswith('fix:')
subprocess.run(['git', '-C', '/repo', 'commit', '-qam', msg], check=True)
h = subprocess.run(['git', '-C', '/repo', 'rev-parse', '--short', 'HEAD'], capture_output=True, text=True).stdout.strip()
k = json.load(open('/verif/known_findings.json'))
for e in k['findings']:
    if e['id'] == kf:
        e['status'] = 'fixed'; e['commit'] = h
        e['fixed_line'] = f"fixed: property={pid} {h} " + ent.get('what_failed', e.get('what', ''))[:300]
json.dump(k, open('/verif/known_findings.json', 'w'), indent=1)
print(kf, 'fixed in', h, subprocess.run(['git', '-C', '/repo', 'show', '--stat', '--oneline', 'HEAD'], capture_output=True, text=True).stdout)
