#!/usr/bin/env python3
"""
tiecov: which statements of gocql does a property's correspondence run actually execute?

The correspondence check ties the hand-written Lean model to the code only on the behaviours the harness drives
(DESIGN.md 0.2/0.4). This tool makes that visible: it builds the property's harness with Go's coverage
instrumentation over package gocql (and internal/*), runs the QUICK campaign once under GOCOVERDIR, and reports,
for the files the property is anchored in (properties.jsonl `anchors.files`), the statements reached — per file and
per function — and the anchored-file functions that were never entered.

  tools/tiecov.py C09 [C10 ...]     one or more properties -> tiecov/<id>.json, prints a summary
  tools/tiecov.py all               all twenty + tiecov/UNION.json + TIECOV.md (functions no run ever enters)

`check <id> thorough` calls measure() and stores the per-file numbers in evidence/<id>.json (coverage.code_reached).
Nothing here decides a property: it is supporting evidence about the reach of the tie.
"""
import json
import os
import re
import shutil
import subprocess
import sys

ROOT = os.path.dirname(os.path.dirname(os.path.abspath(__file__)))
HARN = os.path.join(ROOT, "harness")
BUILD = os.path.join(ROOT, ".build")
PKG = "github.com/gocql/gocql"


def goenv():
    return dict(os.environ, GOFLAGS="-mod=mod", GOPROXY="off", GOSUMDB="off", GOTOOLCHAIN="local",
                CGO_ENABLED=os.environ.get("CGO_ENABLED", "0"))


def anchors(pid):
    for l in open(os.path.join(ROOT, "properties.jsonl")):
        p = json.loads(l)
        if p["id"] == pid:
            return p["anchors"].get("files", [])
    return []


def measure(pid, harness, seed=1, modfile_args=(), timeout=1800):
    """returns {"files": {file: [covered, total]}, "functions": {"file:func": [covered, total]}, "never_entered": [...]}
    for the anchored files of `pid`, or {"error": ...}"""
    env = goenv()
    os.makedirs(BUILD, exist_ok=True)
    binp = os.path.join(BUILD, harness + ".cover")
    covd = os.path.join(BUILD, "cov_" + pid)
    outd = os.path.join(BUILD, "covrun_" + pid)
    shutil.rmtree(covd, ignore_errors=True)
    os.makedirs(covd)
    os.makedirs(outd, exist_ok=True)
    cmd = ["go", "build"] + list(modfile_args) + ["-cover", "-covermode=atomic",
           "-coverpkg=%s/...,verifharness/cmd/%s" % (PKG, harness),
           "-tags", "verif verif_" + pid.lower(), "-o", binp, "./cmd/" + harness]
    r = subprocess.run(cmd, cwd=HARN, env=env, capture_output=True, text=True, timeout=600)
    if r.returncode != 0:
        return {"error": "cover build failed: " + r.stderr[-500:]}
    renv = dict(os.environ, GOCOVERDIR=covd, VERIF_SEED=str(seed), VERIF_TIER="quick",
                GOMAXPROCS=os.environ.get("GOMAXPROCS", "16"))
    try:
        r = subprocess.run([binp, "run", "quick", outd], cwd=ROOT, env=renv, capture_output=True, text=True,
                           timeout=timeout)
    except subprocess.TimeoutExpired:
        return {"error": "instrumented run timed out"}
    prof = os.path.join(BUILD, "cov_" + pid + ".txt")
    r2 = subprocess.run(["go", "tool", "covdata", "textfmt", "-i=" + covd, "-o", prof], cwd=HARN, env=env,
                        capture_output=True, text=True)
    if r2.returncode != 0 or not os.path.exists(prof):
        return {"error": "covdata failed (harness rc=%d): %s" % (r.returncode, r2.stderr[-300:])}
    # statements per file
    files = {}
    for l in open(prof):
        m = re.match(r"(.+?):\d+\.\d+,\d+\.\d+ (\d+) (\d+)$", l.strip())
        if not m or not m.group(1).startswith(PKG + "/"):
            continue
        f = m.group(1)[len(PKG) + 1:]
        if f.startswith("verif_export") or "/yield_" in f:
            continue
        n, c = int(m.group(2)), int(m.group(3))
        t = files.setdefault(f, [0, 0])
        t[1] += n
        if c > 0:
            t[0] += n
    # per function (go tool cover -func resolves the files through the harness module)
    funcs = {}
    r3 = subprocess.run(["go", "tool", "cover"] + ["-func=" + prof], cwd=HARN, env=env, capture_output=True, text=True)
    for l in r3.stdout.splitlines():
        m = re.match(r"(\S+?):(\d+):\s+(\S+)\s+([\d.]+)%$", l.strip())
        if not m or not m.group(1).startswith(PKG + "/"):
            continue
        f = m.group(1)[len(PKG) + 1:]
        if f.startswith("verif_export") or "/yield_" in f:
            continue
        funcs["%s:%s:%s" % (f, m.group(2), m.group(3))] = float(m.group(4))
    anc = anchors(pid)
    res = {"anchor_files": {f: files.get(f, [0, 0]) for f in anc},
           "all_files": files,
           "functions": funcs,
           "harness_rc": r.returncode}
    shutil.rmtree(covd, ignore_errors=True)
    return res


def summary(pid, res):
    if "error" in res:
        return "%s: %s" % (pid, res["error"])
    parts = []
    for f, (c, t) in sorted(res["anchor_files"].items()):
        parts.append("%s %d/%d" % (f, c, t))
    return "%s anchored files, statements reached: %s" % (pid, "; ".join(parts))


def main():
    args = sys.argv[1:]
    if not args:
        print(__doc__)
        return 2
    allp = sorted(f[:-5] for f in os.listdir(os.path.join(ROOT, "props")) if re.match(r"C\d\d\.json$", f))
    pids = allp if args == ["all"] else args
    os.makedirs(os.path.join(ROOT, "tiecov"), exist_ok=True)
    union = {}
    ufiles = {}
    per = {}
    for pid in pids:
        cfg = json.load(open(os.path.join(ROOT, "props", pid + ".json")))
        res = measure(pid, cfg["harness"])
        print(summary(pid, res), flush=True)
        if "error" in res:
            continue
        per[pid] = res
        json.dump({"property": pid, "anchor_files": res["anchor_files"],
                   "functions_reached": {k: v for k, v in res["functions"].items() if v > 0}},
                  open(os.path.join(ROOT, "tiecov", pid + ".json"), "w"), indent=1, sort_keys=True)
        for k, v in res["functions"].items():
            union[k] = max(union.get(k, 0.0), v)
    if args == ["all"]:
        never = sorted(k for k, v in union.items() if v == 0.0)
        reached = sorted(k for k, v in union.items() if v > 0.0)
        json.dump({"functions_total": len(union), "reached_by_some_run": len(reached), "never_entered": never},
                  open(os.path.join(ROOT, "tiecov", "UNION.json"), "w"), indent=1)
        with open(os.path.join(ROOT, "TIECOV.md"), "w") as f:
            f.write("# Reach of the correspondence tie (generated by tools/tiecov.py all; quick tier, seed 1)\n\n")
            f.write("Statements of gocql executed by each property's quick correspondence campaign, for the files the property is "
                    "anchored in. A statement never executed is NOT tied to the Lean model by that run (it may be tied by another "
                    "property's run, by the thorough tier, or by a regenerated definition, DESIGN.md 0.8).\n\n")
            f.write("| property | anchored file: statements reached / total |\n|---|---|\n")
            for pid in pids:
                if pid in per:
                    f.write("| %s | %s |\n" % (pid, "; ".join("%s %d/%d" % (a, c, t) for a, (c, t) in sorted(per[pid]["anchor_files"].items()))))
            f.write("\n%d of %d functions of package gocql (+internal) are entered by at least one quick campaign.\n\n" % (len(reached), len(union)))
            f.write("## Functions no quick campaign enters (not tied by any correspondence run)\n\n")
            cur = None
            for k in never:
                fn = k.split(":")[0]
                if fn != cur:
                    f.write("\n**%s**: " % fn)
                    cur = fn
                f.write(k.split(":")[2] + " ")
            f.write("\n")
    return 0


if __name__ == "__main__":
    sys.exit(main())
