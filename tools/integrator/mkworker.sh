#!/bin/bash
# usage: mkworker.sh <name>   creates /work/v-<name> (worktree of /verif, branch w-<name>) and /work/r-<name> (detached worktree of /repo)
set -e
N=$1
git -C /verif worktree add -q -b w-$N /work/v-$N HEAD
mkdir -p /work/v-$N/lean /work/v-$N/.build
cp -a /verif/lean/.lake /work/v-$N/lean/.lake
cp -a /verif/.build/go2lean /work/v-$N/.build/ 2>/dev/null || true
for b in /verif/.build/c??; do cp -a $b /work/v-$N/.build/; done
mkdir -p /work/v-$N/evidence /work/v-$N/replays
git -C /repo worktree add -q --detach /work/r-$N HEAD
echo "/work/v-$N /work/r-$N"
