#!/usr/bin/env python3
import subprocess, sys
T = open('/work/prompts/task_generic.txt').read()
rows = {
 'C01': ('none', 'Candidates: a simulation/refinement theorem between Model/MuxOwn.lean and Model/Mux.lean (today two separate machines); completeness direction of the monitor; object recycling (call objects reused across requests and connections) as part of the machine.'),
 'C02': ('none', 'Candidates: round-trip theorems for the kinds still compared model-vs-code only (decimal, varint into big.Int, uuid, inet, time/date/duration, float bit patterns), nested collections (list<map<…>>) by structural induction.'),
 'C03': ('none', 'Candidates: the prepared-statement cache across executions and the UNPREPARED -> re-PREPARE loop in the handshake tier; compression flag on request frames; REGISTER/OPTIONS/AUTH_RESPONSE bodies at full strength.'),
 'C04': ('none', 'Candidates: paging (iter.next) with reused destinations, Query.Scan/ScanCAS/MapScanCAS paths, schema-change / set-keyspace / prepared result bodies, v5 error map bodies, tracing id + warnings + custom payload combinations.'),
 'C05': ('none', 'Candidates: handleSchemaEvent / handleNodeEvent driven behaviourally; USE keyspace and handshake answers in the sequence tier; whole-tree allocation counter for nested collections.'),
 'C06': ('C01-7 C01-8', 'Candidates: object recycling / double release interleavings in the fine pipeline machine; TimeoutLimit path; closeWithError racing exec at every program point.'),
 'C07': ('none', 'Candidates: refinement between the coalescing writer machine and the plain writer machine; cancellation at every program point of writeCoalescer (enqueue, flush timer, flush, result fan-out); torn-frame-then-close as full theorem on the repaired path if a small fix exists for KF-C07-1.'),
 'C08': ('C06-3', 'Candidates: protocol-free theorems for Clear racing GetStream on the same word at every atomic step; NumStreams/Available accounting; 32768-id generator sweeps.'),
 'C09': ('none', 'Candidates: token parsing/printing for all three partitioners, ByteOrdered/Random partitioner hashing at full strength, routing key of batches, GetRoutingKey caching (routingKeyInfoCache LRU) across schema changes.'),
 'C10': ('C11-7', 'Candidates: tablets / vnode rings with duplicate tokens, rack-aware NTS at full spec strength (Cassandra NetworkTopologyStrategy.calculateNaturalEndpoints written out as an independent spec incl. rack skipping), keyspace strategy option parsing (getStrategy) for every option map.'),
 'C11': ('C10-6 C16-4', 'Candidates: DCAwareRoundRobin / RackAware as standalone policies at full strength, HostPoolHostPolicy, host filters (WhiteList/DataCentre) composing with policies, ShuffleReplicas randomness independence.'),
 'C12': ('C02-2 C02-3', 'Candidates: spec conformance theorems for decimal, duration (vint zig-zag), inet, uuid/timeuuid, time, float/double bit patterns, nested frozen collections/UDT by structural induction; protocol v2 vs v3+ collection framing at full strength.'),
 'C13': ('none', 'Candidates: DowngradingConsistencyRetryPolicy decisions per error kind at full strength; speculative execution machine with cancellation at every point; RetryPolicy.GetRetryType Rethrow/Ignore/RetryNextHost on batches; metrics (attempt counts/latency observers) exact.'),
 'C14': ('none', 'Candidates: batch statements preparing several entries (single flight per entry), eviction under LRU pressure while a flight is pending, context cancellation of the flight owner vs waiters (all interleavings).'),
 'C15': ('none', 'Candidates: Iter.NumRows/WillSwitchPage/PageState semantics, prefetch goroutine interleavings with Close, Scanner API, MapScan/SliceMap across pages, retries at page fetches combined with paging state changes.'),
 'C16': ('none', 'Candidates: handleSchemaEvent and schema-metadata cache invalidation, NEW_NODE/REMOVED_NODE/UP/DOWN/MOVED event sequences through the real session event loop, control-connection reconnect picking a new host, system.peers rows with null / duplicate fields.'),
 'C17': ('C06-6', 'Candidates: reconnection policy driven refill loop, Session.Close racing query execution and event handling at every point, connection-pool size per host for local/remote distance, goroutine accounting theorem (every started goroutine has an exit path) over the session machine.'),
 'C18': ('none', 'Candidates: snappy as a second concrete codec with its own framing theorems, compressed frames larger than the max frame size, the v5 framing note (gocql does not implement v5 frame segments: state exactly what is sent), compressor errors on the send path for every request kind.'),
 'C19': ('none', 'Candidates: UUIDFromTime/MinTimeUUID/MaxTimeUUID ordering vs Cassandra timeuuid comparison at full strength, concurrent generator machine (atomics on clockSeq / timeBase as small-step model, all interleavings), JSON/Text/CQL marshalling round trips incl. error texts.'),
 'C20': ('none', 'Candidates: the host-verification decision incl. ServerName override paths for every dialer (HostDialer/Dialer/defaults), AllowedAuthenticators list semantics incl. custom classes, credentials never logged (logger output monitor), TLS config cloning per connection (no shared mutation across hosts).'),
}
only = sys.argv[1:]
for pid, (others, extra) in rows.items():
    if only and pid not in only: continue
    name = 's' + pid[1:] + 'f'
    t = T.replace('{PID}', pid).replace('{OTHERS}', others).replace('{EXTRA}', extra).replace('{R}', f'/work/r-{name}')
    open(f'/work/prompts/task-{name}.txt', 'w').write(t)
    subprocess.run(['/work/mkprompt.py', name, pid, '3', f'/work/prompts/task-{name}.txt'], check=True)
