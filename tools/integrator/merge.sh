#!/bin/bash
# usage: merge.sh <name> <Cxx> [commit]   — integrator: merge branch w-<name> (or up to <commit>) into /verif main, land new hook files in /repo, run the check
set -u
N=$1; P=$2; C=${3:-w-$N}
export GOFLAGS=-mod=mod GOPROXY=off GOSUMDB=off GOTOOLCHAIN=local
cd /verif
if ! git merge --no-ff -q -m "Merge branch 'w-$N' ($P)" $C; then
  # evidence files are rewritten by every run: take the branch's copy, the check below rewrites it anyway
  for f in $(git diff --name-only --diff-filter=U | grep '^evidence/'); do git checkout --theirs $f && git add $f; done
  if git diff --name-only --diff-filter=U | grep -q .; then echo "MERGE CONFLICT"; git diff --name-only --diff-filter=U; exit 1; fi
  git commit -qm "Merge branch 'w-$N' ($P)"
fi
lp=$(echo $P | tr A-Z a-z)
for f in hooks/verif_export_*.go.txt; do
  b=$(basename $f .txt)
  if [ ! -f /repo/$b ]; then
    cp $f /repo/$b
    (cd /repo && gofmt -l $b; go build -tags "verif verif_all" ./... && go build ./... ) || { echo "HOOK BUILD FAILED $b"; exit 1; }
    (cd /repo && go test -vet=off -count=1 ./... 2>&1 | tail -n 4)
    (cd /repo && git add $b && git commit -qm "verif hooks: $b (build tag verif)" && git log -1 --format=%h >> /verif/props/hook_commits.txt)
    echo "hook landed: $b"
  elif ! cmp -s $f /repo/$b; then
    echo "WARNING: hook $b differs from /repo's copy"
  fi
done
for s in 1 2; do VERIF_SEED=$s ./check $P quick 2>&1 | grep -v '^KNOWN-FINDING' | tail -n 2 | cut -c1-220; done
