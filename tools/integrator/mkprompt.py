#!/usr/bin/env python3
"""usage: mkprompt.py <name> <pid> <hours> <taskfile>  -> /work/prompts/w-<name>.txt (worker prompt); creates the worktrees"""
import json, subprocess, sys
name, pid, hours, taskfile = sys.argv[1:5]
props = {json.loads(l)['id']: json.loads(l) for l in open('/verif/properties.jsonl')}
p = props[pid]
subprocess.run(['/work/mkworker.sh', name], check=True)
prop = f"{p['title']}\nStatement: {p['statement']}\nMust hold: {p['quantifier']['text']}\nWhy tests cannot settle it: {p['why_tests_cant']}"
t = open('/work/prompts/worker_tmpl.txt').read().format(pid=pid, lpid=pid.lower(), prop=prop, v=f'/work/v-{name}', r=f'/work/r-{name}',
    branch=f'w-{name}', hours=hours, task=open(taskfile).read())
open(f'/work/prompts/w-{name}.txt', 'w').write(t)
print(f'/work/prompts/w-{name}.txt')
