#!/usr/bin/env python3
"""usage: mkseedprompts.py <Cxx> [<Cxx> ...]  — writes /tmp/seed/<id>/prompt.txt for a new pair of seeded changes
(numbers continue after the kept ones) and creates the scratch worktree /tmp/seed/<id>/wt of /repo."""
import json, os, subprocess, sys, glob
tmpl = open('/work/prompts/seed_tmpl.txt').read()
props = {json.loads(l)['id']: json.loads(l) for l in open('/verif/properties.jsonl')}
for pid in sys.argv[1:]:
    p = props[pid]
    kept = sorted(glob.glob(f'/verif/seeded/{pid}-*/meta.json'))
    tried = []
    nums = []
    for k in kept:
        m = json.load(open(k)); nums.append(int(os.path.dirname(k).rsplit('-', 1)[1]))
        tried.append(f" - {m.get('title','')} ({', '.join(m.get('files', []))})")
    for d in glob.glob(f'/tmp/seed/{pid}/out/*/'):
        try: nums.append(int(os.path.basename(d.rstrip('/'))))
        except ValueError: pass
    n0 = max(nums + [0]) + 1
    S = f'/tmp/seed/{pid}'
    os.makedirs(S + '/out', exist_ok=True)
    if not os.path.isdir(S + '/wt'):
        subprocess.run(['git', '-C', '/repo', 'worktree', 'add', '-q', '--detach', S + '/wt', 'HEAD'], check=True)
    txt = tmpl.format(wt=S + '/wt', pid=pid, title=p['title'], statement=p['statement'], quant=p['quantifier']['text'],
                      why=p['why_tests_cant'], anchors=json.dumps(p['anchors']), tried='\n'.join(tried) or ' (none yet)',
                      n=2, out=S + '/out')
    txt = txt.replace(f"For each change n = 1..2 write a directory {S}/out/<n>/", f"For each change n = {n0}..{n0+1} write a directory {S}/out/<n>/ (use n = {n0}, {n0+1})")
    open(S + '/prompt.txt', 'w').write(txt)
    print(pid, 'next numbers', n0, n0 + 1)
