module go2lean

go 1.21
