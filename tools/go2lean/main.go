// go2lean: a small translator from straight-line integer / bit / byte-slice Go code to Lean 4 definitions over
// BitVec. It is the "regenerated" half of the tie between /repo and the Lean models (DESIGN.md 0.8): on every run
// of ./check the targets listed in targets.json are re-translated from /repo's CURRENT source into lean/Gen/*.lean,
// and the theorems in lean/Proofs/GenTie*.lean (generated definition = hand-written model definition, for all
// arguments) are re-checked by the kernel. A change of a translated function or constant therefore breaks a proof
// obligation (or the translation itself: an unsupported construct is reported as a broken tie).
//
// Standard library only (go/parser, go/types with the "source" importer for the standard library; imports that
// cannot be resolved offline are ignored — the targets use built-in integer types only).
//
// Semantics of the translation (trusted; see DESIGN.md 0.4):
//
//	intN/uintN/byte/int/uint  → BitVec N (int, uint: 64 — GOARCH=amd64/arm64); bool → Bool
//	[]byte, [n]byte           → List (BitVec 8); s[i] → s.getD i 0 (Go panics when out of range: the generated
//	                            definition is total; every use is listed in the header of the generated file)
//	+ - * & | ^ &^ << >>      → BitVec operations; >> is sshiftRight for signed operands, ushiftRight for unsigned;
//	                            shift counts ≥ width behave as in Go (0 / sign fill)
//	/ %                       → only by a non-zero constant: udiv/umod (unsigned), sdiv/srem (signed, truncated)
//	T(x)                      → signExtend (signed source, widening), setWidth (otherwise)
//	< <= > >= == !=           → slt/sle (signed), ult/ule (unsigned), ==, !=
//	x := e, x = e, x op= e, x++, var x T, a, b = f(..) → let-bindings (shadowing)
//	if / else                 → if-then-else (the rest of the block is duplicated into both arms when an arm returns,
//	                            otherwise the assigned variables are merged through a tuple)
//	switch with fallthrough   → a chain of guarded arms ("entered" flag carried along fallthrough)
//	calls of other translated functions of the same package → application; len → length
//	for i := a; i < b; i++ {…} → a helper definition `<fn>_loop<k>` by structural recursion on a fuel argument: one
//	(also i <= b; i++, i > b;   unfolding = test the condition, run the body, step by one; the call site passes as fuel the
//	 i--, i >= b; i--)          trip count ((b - a).toNat, +1 for <=, a and b swapped for the descending forms), exact whenever
//	                            the loop runs without i wrapping around (the condition is false at once otherwise; a loop
//	                            that only ends by wrap-around in Go is NOT represented). Accepted only when the body
//	                            contains no break / continue / goto / return / closure and assigns neither i nor a
//	                            variable of the bound b. The variables assigned in the body are the loop-carried state.
//	for i := range x, for i, v := range x, for _, v := range x (x a []byte variable) → the counted loop it abbreviates
//	                            (i from 0 below len(x), v := x[i] at the head of the body)
//	bits.LeadingZeros64/32/8(x) → BitVec.clz (zero-extended to int)
//	copy(dst[a:], src), copy(dst, src) (dst a []byte / [n]byte variable) → goCopyAt (defined in the generated file)
//	u[i], u[j] = e1, e2       → all right-hand sides into temporaries, then the stores left to right
//	var u [n]byte             → List.replicate n 0
//	"externs" (targets.json)  → a function of the package that is NOT translated (unsafe pointer code): its Lean
//	                            definition is given in targets.json (TRUSTED, printed in the generated file under the
//	                            word EXTERN) together with the Go source text it was written for; a change of that
//	                            source text is a translation error (the extern must be re-validated by hand).
//	methods with a struct receiver (f *framer) → a function from the receiver fields the body uses (f.buf → f_buf; directly
//	                            or through a callee) to the fields it assigns, followed by the Go results. A call
//	                            `f.M(args)` / `x := f.M(args)` of such a method on the same receiver is accepted as a
//	                            statement or as the sole right-hand side only and rebinds the assigned fields. A struct
//	                            PARAMETER is passed as the fields the body reads (info.proto → info_proto).
//	panic(…)                  → a function that contains a panic statement (or calls a translated function that does)
//	                            returns Option: panic = none, return e = some e, a call of such a function is
//	                            `match … with | none => none | some … => rest`; refused inside loops and switches.
//	error                     → Bool "is non-nil": nil = false; fmt.Errorf(…), errors.New(…) and the functions listed
//	                            as "nonnil_error" externs (pinned to their source text) = true, arguments not translated.
//	string                    → the list of its bytes (len, s[i], append(b, s...), string(b), []byte(s)); range over a
//	                            string (runes) is refused; a constant string is the list of its bytes.
//	if with a return / panic anywhere inside an arm → the rest of the block is duplicated into both arms.
//	*bytes.Buffer parameter   → the list of the bytes written (buf.WriteByte(b) / Write(p) / WriteString(s) as statements =
//	                            append); returned in front of the results; such a function cannot be called from
//	                            translated code.
//	f.M(..) inside an expression (M assigns receiver fields / can panic) → bound to a fresh variable in front of the
//	                            statement, in Go's order of evaluation (lexical, arguments before the call); refused
//	                            under && / ||, in loop conditions, and when the statement also reads a field it assigns.
//	[n]int / [...]intN arrays → List (BitVec w): composite literals and indexed loads (getD … 0) only; a local const
//	                            declaration is skipped (uses are translated as the constant's value).
//	nil slices are the empty list (x == nil on a slice is refused).
//	"segments": a consecutive run of statements of a function, translated as a function of the variables it reads
//	to the variables it assigns (or to its return value).
package main

import (
	"bytes"
	"encoding/json"
	"fmt"
	"go/ast"
	"go/build"
	"go/constant"
	"go/importer"
	"go/parser"
	"go/printer"
	"go/token"
	"go/types"
	"math/big"
	"os"
	"path/filepath"
	"sort"
	"strings"
)

type Segment struct {
	Func  string `json:"func"`
	Name  string `json:"name"`
	First string `json:"first"`
	Last  string `json:"last"`
}

type Module struct {
	Lean     string    `json:"lean"`     // e.g. Gen.Murmur
	Dir      string    `json:"dir"`      // relative to the repo
	Funcs    []string  `json:"funcs"`    // package-level functions, or Recv.Method
	Consts   []string  `json:"consts"`   // package-level constants (value table)
	Prefixes []string  `json:"prefixes"` // all package-level constants whose name has one of these prefixes
	Segments []Segment `json:"segments"`
	Externs  []Extern  `json:"externs"`
}

// Extern: a function that is not translated; its Lean definition is trusted (see the header comment)
type Extern struct {
	Name string `json:"name"` // Go function name
	Src  string `json:"src"`  // the Go source text (whitespace-normalised) the Lean text was written for
	Lean string `json:"lean"` // Lean definition(s), emitted verbatim
	Why  string `json:"why"`
	// NonNilError: the function always returns a non-nil error value (an error constructor): a call is `true`
	// ("is non-nil"), its arguments are not translated; no Lean text
	NonNilError bool `json:"nonnil_error"`
}

type Targets struct {
	Modules []Module `json:"modules"`
}

type tr struct {
	fset      *token.FileSet
	info      *types.Info
	pkg       *types.Package
	known     map[string]bool // translated function names (for calls)
	notes     []string
	errs      []string
	curFn     string
	segIn     map[types.Object]bool
	helpers   []string
	selTy     map[string]ty
	swCount   int
	tmpCount  int
	useCopy   bool
	rngCount  int
	cnt       map[string]int // helper definitions (switch, loop) are numbered per translated function / segment
	indent    int
	decls     map[string]*ast.FuncDecl // every function of the package by name (methods as Recv.Method)
	finfo     map[string]*fnInfo
	nonnil    map[string]bool          // functions that always return a non-nil error (fmt.Errorf, errors.New + pinned externs)
	hoisted   map[*ast.CallExpr]string // effectful calls inside an expression, bound to a variable in front of the statement
	hoistN    int
	hoistDone map[ast.Stmt]bool
	opt       bool         // the function / segment being translated can panic: its result is an Option
	resTypes  []types.Type // result types of the Go function being translated (types an untyped nil in a return)
	outs      []string     // receiver fields the function being translated assigns (returned in front of the results)
}

// fnInfo: how a translated function is called (see "methods with a struct receiver" in the header comment)
type fnInfo struct {
	def      string     // Lean name
	exploded bool       // the receiver is a (pointer to a) struct: passed as the fields the method uses
	ins      []fieldRef // receiver fields read or assigned (directly or by a callee), in declaration order
	outs     []fieldRef // receiver fields assigned (directly or by a callee), in declaration order
	opt      bool       // contains `panic(…)` or calls a function that does: result is an Option
	nres     int        // number of Go results
	bufParam bool       // has a *bytes.Buffer parameter (such a function is translated but cannot be called)
	busy     bool
}

type fieldRef struct {
	name string
	idx  int
	y    ty
	ok   bool
}

func (t *tr) fail(n ast.Node, f string, a ...interface{}) string {
	pos := t.fset.Position(n.Pos())
	t.errs = append(t.errs, fmt.Sprintf("%s:%d: %s: ", filepath.Base(pos.Filename), pos.Line, t.curFn)+fmt.Sprintf(f, a...))
	return "(UNSUPPORTED)"
}

func src(fset *token.FileSet, n ast.Node) string {
	var b bytes.Buffer
	printer.Fprint(&b, fset, n)
	return strings.Join(strings.Fields(b.String()), " ")
}

// ---- types

type ty struct {
	kind   string // "bv", "bool", "bytes", "tuple"
	w      int
	signed bool
	elems  []ty
}

func isBytesBuffer(T types.Type) bool {
	if p, ok := T.(*types.Pointer); ok {
		T = p.Elem()
	}
	nt, ok := T.(*types.Named)
	return ok && nt.Obj().Pkg() != nil && nt.Obj().Pkg().Path() == "bytes" && nt.Obj().Name() == "Buffer"
}

// bufWrite: `buf.WriteByte(e)` / `buf.Write(p)` / `buf.WriteString(s)` on a bytes.Buffer VARIABLE
func (t *tr) bufWrite(e ast.Expr) (*ast.Ident, *ast.CallExpr, bool) {
	c, ok := e.(*ast.CallExpr)
	if !ok || len(c.Args) != 1 {
		return nil, nil, false
	}
	se, ok := c.Fun.(*ast.SelectorExpr)
	if !ok {
		return nil, nil, false
	}
	id, ok := se.X.(*ast.Ident)
	if !ok {
		return nil, nil, false
	}
	v, isVar := t.info.Uses[id].(*types.Var)
	if !isVar || !isBytesBuffer(v.Type()) {
		return nil, nil, false
	}
	switch se.Sel.Name {
	case "WriteByte", "Write", "WriteString":
		return id, c, true
	}
	return nil, nil, false
}

func (t *tr) tyOf(T types.Type) (ty, bool) {
	if isBytesBuffer(T) {
		return ty{kind: "bytes"}, true // a bytes.Buffer that is only written to: the list of the bytes written so far
	}
	switch u := T.Underlying().(type) {
	case *types.Basic:
		switch u.Kind() {
		case types.Bool, types.UntypedBool:
			return ty{kind: "bool"}, true
		case types.Int8:
			return ty{"bv", 8, true, nil}, true
		case types.Int16:
			return ty{"bv", 16, true, nil}, true
		case types.Int32:
			return ty{"bv", 32, true, nil}, true
		case types.Int64, types.Int, types.UntypedInt, types.UntypedRune:
			return ty{"bv", 64, true, nil}, true
		case types.Uint8:
			return ty{"bv", 8, false, nil}, true
		case types.Uint16:
			return ty{"bv", 16, false, nil}, true
		case types.Uint32:
			return ty{"bv", 32, false, nil}, true
		case types.Uint64, types.Uint, types.Uintptr:
			return ty{"bv", 64, false, nil}, true
		case types.String, types.UntypedString:
			return ty{kind: "bytes"}, true // a string is the list of its bytes (range over a string is refused)
		}
	case *types.Interface:
		if types.Identical(T, types.Universe.Lookup("error").Type()) {
			return ty{kind: "bool"}, true // an error value is represented by the Bool "is non-nil"
		}
	case *types.Slice:
		if e, ok := t.tyOf(u.Elem()); ok && e.kind == "bv" && e.w == 8 && !e.signed {
			return ty{kind: "bytes"}, true
		}
	case *types.Array:
		if e, ok := t.tyOf(u.Elem()); ok && e.kind == "bv" && e.w == 8 && !e.signed {
			return ty{kind: "bytes"}, true
		}
		if e, ok := t.tyOf(u.Elem()); ok && e.kind == "bv" {
			return ty{kind: "ints", elems: []ty{e}}, true // an array of integers (read-only: literal, index)
		}
	case *types.Tuple:
		var es []ty
		for i := 0; i < u.Len(); i++ {
			e, ok := t.tyOf(u.At(i).Type())
			if !ok {
				return ty{}, false
			}
			es = append(es, e)
		}
		return ty{kind: "tuple", elems: es}, true
	}
	return ty{}, false
}

func (y ty) lean() string {
	switch y.kind {
	case "bool":
		return "Bool"
	case "bv":
		return fmt.Sprintf("BitVec %d", y.w)
	case "bytes":
		return "List (BitVec 8)"
	case "ints":
		return "List (" + y.elems[0].lean() + ")"
	case "tuple":
		var s []string
		for _, e := range y.elems {
			s = append(s, e.lean())
		}
		return strings.Join(s, " × ")
	}
	return "?"
}

func lit(v constant.Value, w int) string {
	// value modulo 2^w, printed in hex
	var z *big.Int
	switch v.Kind() {
	case constant.Int:
		if i, ok := constant.Int64Val(v); ok {
			z = big.NewInt(i)
		} else {
			z, _ = new(big.Int).SetString(v.ExactString(), 10)
		}
	default:
		return "(UNSUPPORTED-CONST)"
	}
	m := new(big.Int).Lsh(big.NewInt(1), uint(w))
	z = new(big.Int).Mod(z, m)
	return fmt.Sprintf("0x%s#%d", z.Text(16), w)
}

// ---- expressions

func (t *tr) typeOfExpr(e ast.Expr) (ty, bool) {
	tv, ok := t.info.Types[e]
	if !ok || tv.Type == nil {
		return ty{}, false
	}
	return t.tyOf(tv.Type)
}

func leanName(s string) string {
	switch s {
	case "end", "from", "at", "do", "then", "else", "let", "fun", "in", "have", "show", "by", "match", "with", "def", "open", "where", "if", "instance", "structure", "class", "theorem", "namespace", "section", "variable", "universe", "local", "mutual", "Type", "Prop", "Sort":
		return s + "_"
	}
	return s
}

func (t *tr) natOf(e ast.Expr) string {
	// an expression used as a Nat (shift count, index)
	if tv, ok := t.info.Types[e]; ok && tv.Value != nil {
		if i, ok := constant.Int64Val(tv.Value); ok && i >= 0 {
			return fmt.Sprintf("%d", i)
		}
	}
	return "(" + t.expr(e) + ").toNat"
}

func (t *tr) expr(e ast.Expr) string {
	tv := t.info.Types[e]
	if tv.Value != nil && !tv.IsType() {
		y, ok := t.tyOf(tv.Type)
		if ok && y.kind == "bv" {
			return lit(tv.Value, y.w)
		}
		if ok && y.kind == "bool" {
			if constant.BoolVal(tv.Value) {
				return "true"
			}
			return "false"
		}
		if ok && y.kind == "bytes" && tv.Value.Kind() == constant.String {
			var es []string
			for _, c := range []byte(constant.StringVal(tv.Value)) {
				es = append(es, fmt.Sprintf("0x%x#8", c))
			}
			return "[" + strings.Join(es, ", ") + "]"
		}
	}
	switch x := e.(type) {
	case *ast.ParenExpr:
		return t.expr(x.X)
	case *ast.Ident:
		if x.Name == "true" || x.Name == "false" {
			return x.Name
		}
		if x.Name == "nil" {
			if y, ok := t.tyOf(tv.Type); tv.IsNil() && ok && y.kind == "bool" {
				return "false" // the nil error
			}
			if tv.IsNil() {
				t.notes = append(t.notes, fmt.Sprintf("%s: nil []byte is the empty list (nil and empty are not distinguished)", t.curFn))
				return "[]"
			}
		}
		return leanName(x.Name)
	case *ast.SelectorExpr:
		if id, ok := x.X.(*ast.Ident); ok {
			if _, isVar := t.info.Uses[id].(*types.Var); isVar {
				if _, ok := t.typeOfExpr(x); ok {
					return leanName(id.Name + "_" + x.Sel.Name)
				}
			}
		}
		return t.fail(e, "selector %s", src(t.fset, x))
	case *ast.UnaryExpr:
		a := t.expr(x.X)
		switch x.Op {
		case token.SUB:
			return "(-" + a + ")"
		case token.XOR:
			return "(~~~" + a + ")"
		case token.NOT:
			return "(!" + a + ")"
		case token.ADD:
			return a
		}
		return t.fail(e, "unary %s", x.Op)
	case *ast.BinaryExpr:
		return t.binary(x)
	case *ast.CallExpr:
		return t.call(x)
	case *ast.IndexExpr:
		if y, ok := t.typeOfExpr(x.X); ok && y.kind == "bytes" {
			t.notes = append(t.notes, fmt.Sprintf("%s: index %s totalised (getD … 0)", t.curFn, src(t.fset, x)))
			return "(" + t.expr(x.X) + ".getD " + t.natOf(x.Index) + " 0#8)"
		}
		if y, ok := t.typeOfExpr(x.X); ok && y.kind == "ints" {
			t.notes = append(t.notes, fmt.Sprintf("%s: index %s totalised (getD … 0)", t.curFn, src(t.fset, x)))
			return fmt.Sprintf("(%s.getD %s 0#%d)", t.expr(x.X), t.natOf(x.Index), y.elems[0].w)
		}
		return t.fail(e, "index of non-byte-slice")
	case *ast.SliceExpr:
		if y, ok := t.typeOfExpr(x.X); ok && y.kind == "bytes" && !x.Slice3 {
			s := t.expr(x.X)
			t.notes = append(t.notes, fmt.Sprintf("%s: slice %s totalised (drop/take)", t.curFn, src(t.fset, x)))
			if x.Low != nil && x.High != nil {
				return "((" + s + ".drop " + t.natOf(x.Low) + ").take (" + t.natOf(x.High) + " - " + t.natOf(x.Low) + "))"
			}
			if x.Low != nil {
				return "(" + s + ".drop " + t.natOf(x.Low) + ")"
			}
			if x.High != nil {
				return "(" + s + ".take " + t.natOf(x.High) + ")"
			}
			return s
		}
		return t.fail(e, "slice expression")
	case *ast.CompositeLit:
		if y, ok := t.typeOfExpr(e); ok && y.kind == "bytes" {
			var es []string
			for _, el := range x.Elts {
				if _, kv := el.(*ast.KeyValueExpr); kv {
					return t.fail(e, "keyed composite literal")
				}
				es = append(es, t.expr(el))
			}
			return "[" + strings.Join(es, ", ") + "]"
		}
		if y, ok := t.typeOfExpr(e); ok && y.kind == "ints" {
			var es []string
			for _, el := range x.Elts {
				if _, kv := el.(*ast.KeyValueExpr); kv {
					return t.fail(e, "keyed composite literal")
				}
				es = append(es, t.expr(el))
			}
			return "[" + strings.Join(es, ", ") + "]"
		}
		return t.fail(e, "composite literal")
	}
	return t.fail(e, "expression %T", e)
}

// exprAs: e in a context that expects the Go type T (only matters for the untyped nil: the nil error is `false`,
// the nil slice the empty list)
func (t *tr) exprAs(e ast.Expr, T types.Type) string {
	if id, ok := e.(*ast.Ident); ok && id.Name == "nil" && t.info.Types[e].IsNil() && T != nil {
		if y, ok := t.tyOf(T); ok && y.kind == "bool" {
			return "false"
		}
	}
	return t.expr(e)
}

func (t *tr) binary(x *ast.BinaryExpr) string {
	if x.Op == token.EQL || x.Op == token.NEQ {
		// err == nil / err != nil
		for _, pr := range [][2]ast.Expr{{x.X, x.Y}, {x.Y, x.X}} {
			if id, ok := pr[1].(*ast.Ident); ok && id.Name == "nil" && t.info.Types[pr[1]].IsNil() {
				if y, ok := t.typeOfExpr(pr[0]); ok && y.kind == "bool" {
					if x.Op == token.EQL {
						return "(!" + t.expr(pr[0]) + ")"
					}
					return t.expr(pr[0])
				}
			}
		}
	}
	a, b := t.expr(x.X), t.expr(x.Y)
	ly, lok := t.typeOfExpr(x.X)
	switch x.Op {
	case token.LAND:
		return "(" + a + " && " + b + ")"
	case token.LOR:
		return "(" + a + " || " + b + ")"
	}
	if !lok {
		return t.fail(x, "untyped operand")
	}
	if ly.kind == "bool" {
		switch x.Op {
		case token.EQL:
			return "(" + a + " == " + b + ")"
		case token.NEQ:
			return "(" + a + " != " + b + ")"
		}
		return t.fail(x, "bool op %s", x.Op)
	}
	if ly.kind != "bv" {
		return t.fail(x, "operand kind %s", ly.kind)
	}
	// for comparisons / arithmetic of an untyped constant with a typed operand go/types has already given both
	// sides the typed operand's type
	if ry, ok := t.typeOfExpr(x.Y); ok && ry.kind == "bv" && x.Op != token.SHL && x.Op != token.SHR {
		if tvx := t.info.Types[x.X]; tvx.Value != nil {
			ly = ry
			a = lit(tvx.Value, ry.w)
		}
	}
	switch x.Op {
	case token.ADD:
		return "(" + a + " + " + b + ")"
	case token.SUB:
		return "(" + a + " - " + b + ")"
	case token.MUL:
		return "(" + a + " * " + b + ")"
	case token.AND:
		return "(" + a + " &&& " + b + ")"
	case token.OR:
		return "(" + a + " ||| " + b + ")"
	case token.XOR:
		return "(" + a + " ^^^ " + b + ")"
	case token.AND_NOT:
		return "(" + a + " &&& ~~~" + b + ")"
	case token.SHL:
		return "(" + a + " <<< " + t.natOf(x.Y) + ")"
	case token.SHR:
		if ly.signed {
			return "(BitVec.sshiftRight " + a + " " + t.natOf(x.Y) + ")"
		}
		return "(" + a + " >>> " + t.natOf(x.Y) + ")"
	case token.QUO, token.REM:
		tvy := t.info.Types[x.Y]
		if tvy.Value != nil && constant.Sign(tvy.Value) == 0 {
			return t.fail(x, "division by the constant zero")
		}
		if tvy.Value == nil {
			t.notes = append(t.notes, fmt.Sprintf("%s: %s: a zero divisor is totalised (BitVec: x / 0 = 0, x %% 0 = x)", t.curFn, src(t.fset, x)))
		}
		if x.Op == token.QUO {
			if ly.signed {
				return "(BitVec.sdiv " + a + " " + b + ")"
			}
			return "(" + a + " / " + b + ")"
		}
		if ly.signed {
			return "(BitVec.srem " + a + " " + b + ")"
		}
		return "(" + a + " % " + b + ")"
	case token.EQL:
		return "(" + a + " == " + b + ")"
	case token.NEQ:
		return "(" + a + " != " + b + ")"
	case token.LSS, token.LEQ, token.GTR, token.GEQ:
		p, q := a, b
		if x.Op == token.GTR || x.Op == token.GEQ {
			p, q = b, a
		}
		strict := x.Op == token.LSS || x.Op == token.GTR
		fn := map[[2]bool]string{{true, true}: "BitVec.slt", {true, false}: "BitVec.sle", {false, true}: "BitVec.ult", {false, false}: "BitVec.ule"}[[2]bool{ly.signed, strict}]
		return "(" + fn + " " + p + " " + q + ")"
	}
	return t.fail(x, "binary %s", x.Op)
}

func (t *tr) call(x *ast.CallExpr) string {
	if tv, ok := t.info.Types[x.Fun]; ok && tv.IsType() && len(x.Args) == 1 {
		// conversion
		dst, ok1 := t.tyOf(tv.Type)
		srcT, ok2 := t.typeOfExpr(x.Args[0])
		a := t.expr(x.Args[0])
		if !ok1 || !ok2 {
			return t.fail(x, "conversion %s", src(t.fset, x))
		}
		if dst.kind == "bytes" && srcT.kind == "bytes" {
			return a
		}
		if dst.kind != "bv" || srcT.kind != "bv" {
			return t.fail(x, "conversion %s", src(t.fset, x))
		}
		if dst.w == srcT.w {
			return a
		}
		if dst.w > srcT.w && srcT.signed {
			return fmt.Sprintf("(%s.signExtend %d)", a, dst.w)
		}
		return fmt.Sprintf("(%s.setWidth %d)", a, dst.w)
	}
	if id, ok := x.Fun.(*ast.Ident); ok {
		switch id.Name {
		case "len":
			if y, ok := t.typeOfExpr(x.Args[0]); ok && y.kind == "bytes" {
				return "(BitVec.ofNat 64 " + t.expr(x.Args[0]) + ".length)"
			}
			return t.fail(x, "len of non-bytes")
		case "append":
			if y, ok := t.typeOfExpr(x); ok && y.kind == "bytes" && len(x.Args) >= 1 {
				base := t.expr(x.Args[0])
				if x.Ellipsis != token.NoPos && len(x.Args) == 2 {
					return "(" + base + " ++ " + t.expr(x.Args[1]) + ")"
				}
				var es []string
				for _, a := range x.Args[1:] {
					es = append(es, t.expr(a))
				}
				return "(" + base + " ++ [" + strings.Join(es, ", ") + "])"
			}
			return t.fail(x, "append")
		case "make":
			if y, ok := t.typeOfExpr(x); ok && y.kind == "bytes" && len(x.Args) == 2 {
				return "(List.replicate " + t.natOf(x.Args[1]) + " 0#8)"
			}
			return t.fail(x, "make")
		}
	}
	// a function that always returns a non-nil error (its arguments are not translated)
	if t.isNonNil(x) {
		return "true"
	}
	if name, ok := t.hoisted[x]; ok {
		return name
	}
	if cn, _ := t.callee(x); cn != "" {
		fi := t.fninfo(cn)
		if fi.bufParam {
			return t.fail(x, "call of %s, which has a *bytes.Buffer parameter", cn)
		}
		if fi.opt || len(fi.outs) > 0 {
			return t.fail(x, "call of %s (assigns receiver fields or can panic) inside an expression: only as a statement or the sole right-hand side", cn)
		}
		return t.callArgs(x, fi)
	}
	// math/bits
	if se, ok := x.Fun.(*ast.SelectorExpr); ok && len(x.Args) == 1 {
		if pk, ok := se.X.(*ast.Ident); ok {
			if pn, ok := t.info.Uses[pk].(*types.PkgName); ok && pn.Imported().Path() == "math/bits" {
				if ay, ok := t.typeOfExpr(x.Args[0]); ok && ay.kind == "bv" && !ay.signed {
					want := map[string]int{"LeadingZeros64": 64, "LeadingZeros32": 32, "LeadingZeros16": 16, "LeadingZeros8": 8}
					if w, ok := want[se.Sel.Name]; ok && w == ay.w {
						return fmt.Sprintf("((BitVec.clz %s).setWidth 64)", t.expr(x.Args[0]))
					}
				}
				return t.fail(x, "math/bits call %s", src(t.fset, x))
			}
		}
	}
	return t.fail(x, "call %s", src(t.fset, x.Fun))
}

// ---- functions as callees: struct receivers, panics

func (t *tr) isNonNil(c *ast.CallExpr) bool {
	switch f := c.Fun.(type) {
	case *ast.Ident:
		if _, isFn := t.info.Uses[f].(*types.Func); isFn && t.nonnil[f.Name] {
			return true
		}
	case *ast.SelectorExpr:
		if pk, ok := f.X.(*ast.Ident); ok {
			if pn, ok := t.info.Uses[pk].(*types.PkgName); ok {
				return t.nonnil[pn.Imported().Path()+"."+f.Sel.Name]
			}
		}
	}
	return false
}

// structVar: the struct type of a variable that is a struct or a pointer to one (nil otherwise), and whether it is a pointer
func structOf(T types.Type) (*types.Struct, bool) {
	ptr := false
	if p, ok := T.Underlying().(*types.Pointer); ok {
		T, ptr = p.Elem(), true
	}
	st, _ := T.Underlying().(*types.Struct)
	return st, ptr
}

func isPanic(s ast.Stmt) bool {
	if es, ok := s.(*ast.ExprStmt); ok {
		if c, ok := es.X.(*ast.CallExpr); ok {
			if id, ok := c.Fun.(*ast.Ident); ok && id.Name == "panic" {
				return true
			}
		}
	}
	return false
}

// callee resolves a call of a translated function: its name in t.known ("f" or "Recv.Method") and, for a method, the
// receiver expression
func (t *tr) callee(c *ast.CallExpr) (string, ast.Expr) {
	switch f := c.Fun.(type) {
	case *ast.Ident:
		if t.known[f.Name] {
			if _, isFn := t.info.Uses[f].(*types.Func); isFn {
				return f.Name, nil
			}
		}
	case *ast.SelectorExpr:
		if fn, ok := t.info.Uses[f.Sel].(*types.Func); ok {
			if sig, ok := fn.Type().(*types.Signature); ok && sig.Recv() != nil {
				rt := sig.Recv().Type()
				if pt, ok := rt.(*types.Pointer); ok {
					rt = pt.Elem()
				}
				if nt, ok := rt.(*types.Named); ok {
					if full := nt.Obj().Name() + "." + fn.Name(); t.known[full] {
						return full, f.X
					}
				}
			}
		}
	}
	return "", nil
}

func (t *tr) fninfo(name string) *fnInfo {
	if fi, ok := t.finfo[name]; ok {
		return fi
	}
	fi := &fnInfo{def: leanName(strings.ReplaceAll(name, ".", "_")), busy: true}
	t.finfo[name] = fi
	fd := t.decls[name]
	if fd == nil {
		fi.busy = false
		return fi // an extern
	}
	if fd.Type.Results != nil {
		for _, f := range fd.Type.Results.List {
			if n := len(f.Names); n > 0 {
				fi.nres += n
			} else {
				fi.nres++
			}
		}
	}
	if fd.Type.Params != nil {
		for _, f := range fd.Type.Params.List {
			if T := t.info.Types[f.Type].Type; T != nil && isBytesBuffer(T) {
				fi.bufParam = true
			}
		}
	}
	var recv types.Object
	var st *types.Struct
	ptr := false
	if fd.Recv != nil && len(fd.Recv.List) == 1 && len(fd.Recv.List[0].Names) == 1 {
		recv = t.info.Defs[fd.Recv.List[0].Names[0]]
		if recv != nil {
			st, ptr = structOf(recv.Type())
		}
	}
	fi.exploded = st != nil
	ins, outs := map[int]bool{}, map[int]bool{}
	fieldIdx := func(se *ast.SelectorExpr) int {
		id, ok := se.X.(*ast.Ident)
		if !ok || st == nil || t.info.Uses[id] != recv {
			return -1
		}
		for i := 0; i < st.NumFields(); i++ {
			if st.Field(i) == t.info.Uses[se.Sel] {
				return i
			}
		}
		return -1
	}
	lhs := func(e ast.Expr) {
		if ix, ok := e.(*ast.IndexExpr); ok {
			e = ix.X
		}
		if se, ok := e.(*ast.SelectorExpr); ok {
			if i := fieldIdx(se); i >= 0 {
				outs[i] = true
			}
		}
	}
	ast.Inspect(fd.Body, func(n ast.Node) bool {
		switch x := n.(type) {
		case *ast.SelectorExpr:
			if i := fieldIdx(x); i >= 0 {
				ins[i] = true
			}
		case *ast.AssignStmt:
			for _, l := range x.Lhs {
				lhs(l)
			}
		case *ast.IncDecStmt:
			lhs(x.X)
		case *ast.ExprStmt:
			if isPanic(x) {
				fi.opt = true
				return false // the argument of panic is not translated
			}
		case *ast.CallExpr:
			if cn, rx := t.callee(x); cn != "" {
				ci := t.fninfo(cn)
				if ci.busy {
					t.fail(x, "recursive call of %s", cn)
					return true
				}
				fi.opt = fi.opt || ci.opt
				if id, ok := rx.(*ast.Ident); ok && ci.exploded && recv != nil && t.info.Uses[id] == recv {
					for _, f := range ci.ins {
						ins[f.idx] = true
					}
					for _, f := range ci.outs {
						ins[f.idx], outs[f.idx] = true, true
					}
				} else if ci.exploded {
					t.fail(x, "call of %s on something else than the receiver", cn)
				}
			}
		}
		return true
	})
	if st != nil {
		for i := 0; i < st.NumFields(); i++ {
			if ins[i] || outs[i] {
				y, ok := t.tyOf(st.Field(i).Type())
				fr := fieldRef{st.Field(i).Name(), i, y, ok}
				fi.ins = append(fi.ins, fr)
				if outs[i] {
					fi.outs = append(fi.outs, fr)
				}
			}
		}
		if len(fi.outs) > 0 && !ptr {
			t.fail(fd, "value receiver with assigned fields")
		}
	}
	fi.busy = false
	return fi
}

// effectful: a call of a translated function that assigns receiver fields or can panic; such a call is accepted only
// as a statement or as the sole right-hand side of an assignment (it rebinds the fields / ends the function with none)
func (t *tr) effectful(e ast.Expr) (*ast.CallExpr, *fnInfo) {
	c, ok := e.(*ast.CallExpr)
	if !ok {
		return nil, nil
	}
	cn, _ := t.callee(c)
	if cn == "" {
		return nil, nil
	}
	if fi := t.fninfo(cn); fi.opt || len(fi.outs) > 0 {
		return c, fi
	}
	return nil, nil
}

// hasOpt: the statements contain a panic or a call that can panic
func (t *tr) hasOpt(list []ast.Stmt) bool {
	found := false
	for _, s := range list {
		ast.Inspect(s, func(n ast.Node) bool {
			switch x := n.(type) {
			case *ast.ExprStmt:
				if isPanic(x) {
					found = true
					return false
				}
			case *ast.CallExpr:
				if cn, _ := t.callee(x); cn != "" && t.fninfo(cn).opt {
					found = true
				}
			}
			return !found
		})
	}
	return found
}

// callArgs: the receiver (its fields, for a struct receiver) followed by the arguments
func (t *tr) callArgs(c *ast.CallExpr, fi *fnInfo) string {
	var as []string
	if se, ok := c.Fun.(*ast.SelectorExpr); ok {
		if fi.exploded {
			id, ok := se.X.(*ast.Ident)
			if !ok {
				return t.fail(c, "method call on a non-variable struct")
			}
			for _, f := range fi.ins {
				as = append(as, leanName(id.Name+"_"+f.name))
			}
		} else {
			as = append(as, t.expr(se.X))
		}
	}
	for _, a := range c.Args {
		as = append(as, t.expr(a))
	}
	return "(" + fi.def + " " + strings.Join(as, " ") + ")"
}

// hoist: the effectful calls (see `effectful`) that occur INSIDE the expressions of a statement are bound, in Go's order
// of evaluation (lexical left to right, arguments before the call), to fresh variables in front of the statement. Only
// calls that are evaluated unconditionally are hoisted (not under && / || or a closure); the statement's other
// sub-expressions may not mention a receiver field that a hoisted call assigns (Go leaves that order unspecified).
func (t *tr) hoist(exprs []ast.Expr, top bool, cont func() string) string {
	type hc struct {
		c  *ast.CallExpr
		fi *fnInfo
	}
	var found []hc
	bad := ""
	var walk func(n ast.Node, cond bool)
	walk = func(n ast.Node, cond bool) {
		switch x := n.(type) {
		case nil:
			return
		case *ast.FuncLit:
			return
		case *ast.BinaryExpr:
			walk(x.X, cond)
			walk(x.Y, cond || x.Op == token.LAND || x.Op == token.LOR)
			return
		case *ast.CallExpr:
			if t.isNonNil(x) {
				return
			}
			for _, a := range x.Args {
				walk(a, cond)
			}
			walk(x.Fun, cond)
			if _, done := t.hoisted[x]; done {
				return
			}
			if c, fi := t.effectful(x); c != nil {
				if cond {
					bad = "a call that assigns receiver fields / can panic under && or ||"
				}
				if fi.nres != 1 {
					bad = "a call with several results inside an expression"
				}
				found = append(found, hc{c, fi})
			}
			return
		case *ast.ParenExpr:
			walk(x.X, cond)
		case *ast.UnaryExpr:
			walk(x.X, cond)
		case *ast.IndexExpr:
			walk(x.X, cond)
			walk(x.Index, cond)
		case *ast.SliceExpr:
			walk(x.X, cond)
			walk(x.Low, cond)
			walk(x.High, cond)
		case *ast.SelectorExpr:
			walk(x.X, cond)
		case *ast.StarExpr:
			walk(x.X, cond)
		case *ast.CompositeLit:
			for _, e := range x.Elts {
				walk(e, cond)
			}
		case *ast.KeyValueExpr:
			walk(x.Value, cond)
		}
	}
	for _, e := range exprs {
		if e != nil {
			walk(e, false)
		}
	}
	if top && len(found) > 0 {
		// a statement that IS the call (statement / sole right-hand side) is handled by bindCall itself
		last := found[len(found)-1]
		if len(exprs) == 1 && ast.Unparen(exprs[0]) == ast.Expr(last.c) {
			found = found[:len(found)-1]
		}
	}
	if len(found) == 0 {
		return cont()
	}
	if bad != "" {
		return t.pad() + t.fail(exprs[0], "%s", bad) + "\n"
	}
	// fields assigned by the hoisted calls must not be read elsewhere in the statement
	assignedF := map[string]bool{}
	inCall := map[ast.Node]bool{}
	for _, h := range found {
		inCall[h.c] = true
		if se, ok := h.c.Fun.(*ast.SelectorExpr); ok {
			if id, ok := se.X.(*ast.Ident); ok {
				for _, f := range h.fi.outs {
					assignedF[id.Name+"."+f.name] = true
				}
			}
		}
	}
	for _, e := range exprs {
		if e == nil {
			continue
		}
		ast.Inspect(e, func(n ast.Node) bool {
			if se, ok := n.(*ast.SelectorExpr); ok {
				if id, ok := se.X.(*ast.Ident); ok && assignedF[id.Name+"."+se.Sel.Name] {
					bad = "the statement reads " + id.Name + "." + se.Sel.Name + ", which a call inside it assigns"
				}
			}
			return true
		})
	}
	if bad != "" {
		return t.pad() + t.fail(exprs[0], "%s", bad) + "\n"
	}
	var bind func(i int) string
	bind = func(i int) string {
		if i == len(found) {
			out := cont()
			for _, h := range found {
				delete(t.hoisted, h.c) // the bindings are local to this translation of the statement
			}
			return out
		}
		t.hoistN++
		name := fmt.Sprintf("hoist%d", t.hoistN)
		h := found[i]
		return t.bindCall(h.c, h.fi, []string{name}, func() string {
			t.hoisted[h.c] = name
			return bind(i + 1)
		})
	}
	return bind(0)
}

// bindCall: `lhs := recv.M(args)` / `recv.M(args)` for an effectful callee
func (t *tr) bindCall(c *ast.CallExpr, fi *fnInfo, lhs []string, cont func() string) string {
	p := t.pad()
	var pat []string
	if se, ok := c.Fun.(*ast.SelectorExpr); ok && fi.exploded {
		if id, ok := se.X.(*ast.Ident); ok {
			for _, f := range fi.outs {
				name := id.Name + "_" + f.name
				t.selTy[name] = f.y
				pat = append(pat, leanName(name))
			}
		}
	}
	if len(lhs) == 0 {
		for i := 0; i < fi.nres; i++ {
			lhs = append(lhs, "_")
		}
	}
	if len(lhs) != fi.nres {
		return p + t.fail(c, "call with %d results bound to %d variables", fi.nres, len(lhs)) + "\n"
	}
	pat = append(pat, lhs...)
	ps := "_"
	if len(pat) == 1 {
		ps = pat[0]
	} else if len(pat) > 1 {
		ps = "(" + strings.Join(pat, ", ") + ")"
	}
	call := t.callArgs(c, fi)
	if !fi.opt {
		return fmt.Sprintf("%slet %s := %s\n", p, ps, call) + cont()
	}
	if !t.opt {
		return p + t.fail(c, "call of a function that can panic") + "\n"
	}
	out := fmt.Sprintf("%smatch %s with\n%s| none => none\n%s| some %s =>\n", p, call, p, p, ps)
	t.indent++
	out += cont()
	t.indent--
	return out
}

// ret: the value a `return` / the end of the body produces (assigned receiver fields first; some … when the function can panic)
func (t *tr) ret(es []string) string {
	var all []string
	for _, o := range t.outs {
		all = append(all, leanName(o))
	}
	all = append(all, es...)
	r := "()"
	if len(all) == 1 {
		r = all[0]
	} else if len(all) > 1 {
		r = "(" + strings.Join(all, ", ") + ")"
	}
	if t.opt {
		return "(some " + r + ")"
	}
	return r
}

// ---- statements

func (t *tr) pad() string { return strings.Repeat("  ", t.indent) }

// assigned collects the variables (declared outside `stmts`) assigned anywhere in stmts, in order of first assignment
func (t *tr) assigned(stmts []ast.Stmt) []string {
	var out []string
	seen := map[string]bool{}
	declared := map[types.Object]bool{}
	add := func(e ast.Expr) {
		if ix, ok := e.(*ast.IndexExpr); ok {
			e = ix.X
		}
		if se, ok := e.(*ast.SelectorExpr); ok {
			// a field of a variable (receiver, parameter) is treated as a variable named <var>_<field>
			if id, ok := se.X.(*ast.Ident); ok {
				if _, isVar := t.info.Uses[id].(*types.Var); isVar {
					name := id.Name + "_" + se.Sel.Name
					if y, ok := t.typeOfExpr(se); ok {
						t.selTy[name] = y
					}
					if !seen[name] {
						seen[name] = true
						out = append(out, name)
					}
				}
			}
			return
		}
		if id, ok := e.(*ast.Ident); ok && id.Name != "_" {
			obj := t.info.Uses[id]
			if obj == nil {
				obj = t.info.Defs[id]
			}
			if obj != nil && !declared[obj] && !seen[id.Name] {
				seen[id.Name] = true
				out = append(out, id.Name)
			}
		}
	}
	for _, s := range stmts {
		ast.Inspect(s, func(n ast.Node) bool {
			switch x := n.(type) {
			case *ast.CallExpr:
				if cn, rx := t.callee(x); cn != "" {
					if id, ok := rx.(*ast.Ident); ok {
						for _, f := range t.fninfo(cn).outs {
							name := id.Name + "_" + f.name
							t.selTy[name] = f.y
							if !seen[name] {
								seen[name] = true
								out = append(out, name)
							}
						}
					}
				}
			case *ast.AssignStmt:
				if x.Tok == token.DEFINE {
					for _, l := range x.Lhs {
						if id, ok := l.(*ast.Ident); ok {
							if obj := t.info.Defs[id]; obj != nil {
								declared[obj] = true
								continue
							}
						}
						add(l)
					}
				} else {
					for _, l := range x.Lhs {
						add(l)
					}
				}
			case *ast.IncDecStmt:
				add(x.X)
			case *ast.ExprStmt:
				if id, _, ok := t.bufWrite(x.X); ok {
					add(id)
				}
				if c, ok := x.X.(*ast.CallExpr); ok {
					if id, ok := c.Fun.(*ast.Ident); ok && id.Name == "copy" && len(c.Args) == 2 {
						d := c.Args[0]
						if se, ok := d.(*ast.SliceExpr); ok {
							d = se.X
						}
						add(d)
					}
				}
			case *ast.DeclStmt:
				if gd, ok := x.Decl.(*ast.GenDecl); ok {
					for _, sp := range gd.Specs {
						if vs, ok := sp.(*ast.ValueSpec); ok {
							for _, id := range vs.Names {
								if obj := t.info.Defs[id]; obj != nil {
									declared[obj] = true
								}
							}
						}
					}
				}
			}
			return true
		})
	}
	return out
}

func tuple(names []string) string {
	var l []string
	for _, n := range names {
		l = append(l, leanName(n))
	}
	if len(l) == 1 {
		return l[0]
	}
	return "(" + strings.Join(l, ", ") + ")"
}

func terminates(stmts []ast.Stmt) bool {
	if len(stmts) == 0 {
		return false
	}
	if isPanic(stmts[len(stmts)-1]) {
		return true
	}
	switch x := stmts[len(stmts)-1].(type) {
	case *ast.ReturnStmt:
		return true
	case *ast.IfStmt:
		if x.Else == nil {
			return false
		}
		var el []ast.Stmt
		switch e := x.Else.(type) {
		case *ast.BlockStmt:
			el = e.List
		default:
			el = []ast.Stmt{e}
		}
		return terminates(x.Body.List) && terminates(el)
	}
	return false
}

// hasReturn: a return statement anywhere in the statements (an `if` with such an arm cannot be merged through a tuple:
// the rest of the block is duplicated into both arms)
func hasReturn(list []ast.Stmt) bool {
	found := false
	for _, s := range list {
		ast.Inspect(s, func(n ast.Node) bool {
			switch n.(type) {
			case *ast.ReturnStmt:
				found = true
			case *ast.FuncLit:
				return false
			}
			return !found
		})
	}
	return found
}

func (t *tr) zero(T types.Type, n ast.Node) string {
	y, ok := t.tyOf(T)
	if !ok {
		return t.fail(n, "zero value of %s", T)
	}
	switch y.kind {
	case "bv":
		return fmt.Sprintf("0x0#%d", y.w)
	case "bool":
		return "false"
	case "bytes":
		if a, ok := T.Underlying().(*types.Array); ok {
			return fmt.Sprintf("(List.replicate %d 0#8)", a.Len())
		}
		return "[]"
	}
	return t.fail(n, "zero value")
}

// stmts translates a statement list; `tail` produces the expression that ends the block when control falls off
func (t *tr) stmts(list []ast.Stmt, tail func() string, results []string) string {
	if len(list) == 0 {
		return t.pad() + tail() + "\n"
	}
	s, rest := list[0], list[1:]
	cont := func() string { return t.stmts(rest, tail, results) }
	if !t.hoistDone[s] {
		var exprs []ast.Expr
		top := false
		switch x := s.(type) {
		case *ast.ReturnStmt:
			exprs = x.Results
		case *ast.AssignStmt:
			for _, l := range x.Lhs {
				if ix, ok := l.(*ast.IndexExpr); ok {
					exprs = append(exprs, ix.Index)
				}
			}
			exprs = append(exprs, x.Rhs...)
			top = len(exprs) == 1
		case *ast.ExprStmt:
			if !isPanic(x) {
				exprs, top = []ast.Expr{x.X}, true
			}
		case *ast.IfStmt:
			if x.Init == nil {
				exprs = []ast.Expr{x.Cond}
			}
		case *ast.DeclStmt:
			if gd, ok := x.Decl.(*ast.GenDecl); ok {
				for _, sp := range gd.Specs {
					if vs, ok := sp.(*ast.ValueSpec); ok {
						exprs = append(exprs, vs.Values...)
					}
				}
			}
		}
		if len(exprs) > 0 {
			t.hoistDone[s] = true
			out := t.hoist(exprs, top, func() string { return t.stmts(list, tail, results) })
			delete(t.hoistDone, s)
			return out
		}
	}
	switch x := s.(type) {
	case *ast.EmptyStmt:
		return cont()
	case *ast.ReturnStmt:
		var es []string
		if len(x.Results) == 0 {
			for _, r := range results {
				es = append(es, leanName(r))
			}
		}
		for i, r := range x.Results {
			var T types.Type
			if len(x.Results) == len(t.resTypes) {
				T = t.resTypes[i]
			}
			es = append(es, t.exprAs(r, T))
		}
		return t.pad() + t.ret(es) + "\n"
	case *ast.DeclStmt:
		gd, ok := x.Decl.(*ast.GenDecl)
		if ok && gd.Tok == token.CONST {
			return cont() // a local constant: its uses are translated as its value
		}
		if !ok || gd.Tok != token.VAR {
			return t.pad() + t.fail(s, "declaration") + "\n"
		}
		out := ""
		for _, sp := range gd.Specs {
			vs := sp.(*ast.ValueSpec)
			for i, id := range vs.Names {
				obj := t.info.Defs[id]
				y, _ := t.tyOf(obj.Type())
				v := ""
				if i < len(vs.Values) {
					v = t.expr(vs.Values[i])
				} else {
					v = t.zero(obj.Type(), s)
				}
				out += fmt.Sprintf("%slet %s : %s := %s\n", t.pad(), leanName(id.Name), y.lean(), v)
			}
		}
		return out + cont()
	case *ast.IncDecStmt:
		id, ok := x.X.(*ast.Ident)
		y, ok2 := t.typeOfExpr(x.X)
		if !ok || !ok2 || y.kind != "bv" {
			return t.pad() + t.fail(s, "inc/dec") + "\n"
		}
		op := "+"
		if x.Tok == token.DEC {
			op = "-"
		}
		return fmt.Sprintf("%slet %s := %s %s 0x1#%d\n", t.pad(), leanName(id.Name), leanName(id.Name), op, y.w) + cont()
	case *ast.AssignStmt:
		if len(x.Rhs) == 1 {
			if c, fi := t.effectful(x.Rhs[0]); c != nil {
				var lhs []string
				for _, l := range x.Lhs {
					id, ok := l.(*ast.Ident)
					if !ok || (x.Tok != token.DEFINE && x.Tok != token.ASSIGN) {
						return t.pad() + t.fail(s, "target of an assignment from a call that assigns receiver fields / can panic") + "\n"
					}
					lhs = append(lhs, leanName(id.Name))
				}
				return t.bindCall(c, fi, lhs, cont)
			}
		}
		return t.assign(x) + cont()
	case *ast.IfStmt:
		if x.Init != nil {
			return t.pad() + t.fail(s, "if with init statement") + "\n"
		}
		c := t.expr(x.Cond)
		var el []ast.Stmt
		switch e := x.Else.(type) {
		case *ast.BlockStmt:
			el = e.List
		case nil:
		default:
			el = []ast.Stmt{e}
		}
		if terminates(x.Body.List) || terminates(el) || hasReturn(x.Body.List) || hasReturn(el) || t.hasOpt(x.Body.List) || t.hasOpt(el) {
			out := t.pad() + "if " + c + " then\n"
			t.indent++
			out += t.stmts(append(append([]ast.Stmt{}, x.Body.List...), rest...), tail, results)
			t.indent--
			out += t.pad() + "else\n"
			t.indent++
			out += t.stmts(append(append([]ast.Stmt{}, el...), rest...), tail, results)
			t.indent--
			return out
		}
		as := t.assigned(append(append([]ast.Stmt{}, x.Body.List...), el...))
		if len(as) == 0 {
			return cont()
		}
		tp := tuple(as)
		out := t.pad() + "let " + tp + " := if " + c + " then\n"
		t.indent += 2
		out += t.stmts(x.Body.List, func() string { return tp }, results)
		t.indent -= 2
		out += t.pad() + "  else\n"
		t.indent += 2
		out += t.stmts(el, func() string { return tp }, results)
		t.indent -= 2
		return out + cont()
	case *ast.ExprStmt:
		if isPanic(x) {
			if !t.opt {
				return t.pad() + t.fail(s, "panic outside a function translated with an Option result") + "\n"
			}
			return t.pad() + "none\n" // the statements after a panic are unreachable
		}
		if c, fi := t.effectful(x.X); c != nil {
			return t.bindCall(c, fi, nil, cont)
		}
		if id, c, ok := t.bufWrite(x.X); ok {
			arg := t.expr(c.Args[0])
			if c.Fun.(*ast.SelectorExpr).Sel.Name == "WriteByte" {
				arg = "[" + arg + "]"
			}
			return fmt.Sprintf("%slet %s := %s ++ %s\n", t.pad(), leanName(id.Name), leanName(id.Name), arg) + cont()
		}
		// copy(dst[a:], src) / copy(dst, src) on byte slices, dst a variable
		if c, ok := x.X.(*ast.CallExpr); ok {
			if id, ok := c.Fun.(*ast.Ident); ok && id.Name == "copy" && len(c.Args) == 2 {
				dst, off := c.Args[0], "0"
				if se, ok := dst.(*ast.SliceExpr); ok && se.High == nil && !se.Slice3 {
					dst = se.X
					if se.Low != nil {
						off = t.natOf(se.Low)
					}
				}
				di, ok1 := dst.(*ast.Ident)
				dy, ok2 := t.typeOfExpr(dst)
				sy, ok3 := t.typeOfExpr(c.Args[1])
				if ok1 && ok2 && ok3 && dy.kind == "bytes" && sy.kind == "bytes" {
					t.useCopy = true
					t.notes = append(t.notes, fmt.Sprintf("%s: %s totalised (goCopyAt: Go panics when the offset exceeds len(dst))", t.curFn, src(t.fset, c)))
					return fmt.Sprintf("%slet %s := goCopyAt %s %s %s\n", t.pad(), leanName(di.Name), leanName(di.Name), off, t.expr(c.Args[1])) + cont()
				}
			}
		}
		return t.pad() + t.fail(s, "expression statement %s", src(t.fset, x)) + "\n" + cont()
	case *ast.SwitchStmt:
		return t.switchStmt(x) + cont()
	case *ast.ForStmt:
		return t.forStmt(x) + cont()
	case *ast.RangeStmt:
		return t.rangeStmt(x) + cont()
	case *ast.BlockStmt:
		return t.stmts(append(append([]ast.Stmt{}, x.List...), rest...), tail, results)
	}
	return t.pad() + t.fail(s, "statement %T", s) + "\n" + cont()
}

func (t *tr) assign(x *ast.AssignStmt) string {
	p := t.pad()
	if len(x.Lhs) == 1 && len(x.Rhs) == 1 {
		rhs := t.expr(x.Rhs[0])
		// p[i] = e
		if ix, ok := x.Lhs[0].(*ast.IndexExpr); ok {
			id, ok := ix.X.(*ast.Ident)
			if se, isSel := ix.X.(*ast.SelectorExpr); isSel {
				if b, ok3 := se.X.(*ast.Ident); ok3 {
					id, ok = &ast.Ident{Name: b.Name + "_" + se.Sel.Name}, true
				}
			}
			if y, ok2 := t.typeOfExpr(ix.X); ok && ok2 && y.kind == "bytes" {
				cur := "(" + leanName(id.Name) + ".getD " + t.natOf(ix.Index) + " 0#8)"
				v := rhs
				if x.Tok != token.ASSIGN {
					v = t.opAssign(x, cur, rhs, ty{"bv", 8, false, nil})
				}
				t.notes = append(t.notes, fmt.Sprintf("%s: store %s totalised (List.set)", t.curFn, src(t.fset, ix)))
				return fmt.Sprintf("%slet %s := %s.set %s (%s)\n", p, leanName(id.Name), leanName(id.Name), t.natOf(ix.Index), v)
			}
			return p + t.fail(x, "indexed store") + "\n"
		}
		id, ok := x.Lhs[0].(*ast.Ident)
		if se, isSel := x.Lhs[0].(*ast.SelectorExpr); isSel {
			if b, ok3 := se.X.(*ast.Ident); ok3 {
				if _, isVar := t.info.Uses[b].(*types.Var); isVar {
					id, ok = &ast.Ident{Name: b.Name + "_" + se.Sel.Name}, true
				}
			}
		}
		if !ok {
			return p + t.fail(x, "assignment target") + "\n"
		}
		if id.Name == "_" {
			return ""
		}
		switch x.Tok {
		case token.DEFINE, token.ASSIGN:
			return fmt.Sprintf("%slet %s := %s\n", p, leanName(id.Name), rhs)
		}
		y, ok := t.typeOfExpr(x.Lhs[0])
		if !ok {
			return p + t.fail(x, "op-assign type") + "\n"
		}
		return fmt.Sprintf("%slet %s := %s\n", p, leanName(id.Name), t.opAssign(x, leanName(id.Name), rhs, y))
	}
	// u[0], u[1] = e0, e1 : all right-hand sides first (Go's order of evaluation), then the stores left to right
	if len(x.Lhs) == len(x.Rhs) && x.Tok == token.ASSIGN {
		anyIdx := false
		for _, l := range x.Lhs {
			if _, ok := l.(*ast.IndexExpr); ok {
				anyIdx = true
			}
		}
		if anyIdx {
			t.tmpCount++
			out := ""
			var tmps []string
			for i, r := range x.Rhs {
				tmp := fmt.Sprintf("asg%d_%d", t.tmpCount, i)
				tmps = append(tmps, tmp)
				out += fmt.Sprintf("%slet %s := %s\n", p, tmp, t.expr(r))
			}
			for i, l := range x.Lhs {
				switch lx := l.(type) {
				case *ast.IndexExpr:
					id, ok := lx.X.(*ast.Ident)
					y, ok2 := t.typeOfExpr(lx.X)
					if !ok || !ok2 || y.kind != "bytes" {
						return p + t.fail(x, "tuple assignment target") + "\n"
					}
					t.notes = append(t.notes, fmt.Sprintf("%s: store %s totalised (List.set)", t.curFn, src(t.fset, lx)))
					out += fmt.Sprintf("%slet %s := %s.set %s %s\n", p, leanName(id.Name), leanName(id.Name), t.natOf(lx.Index), tmps[i])
				case *ast.Ident:
					if lx.Name != "_" {
						out += fmt.Sprintf("%slet %s := %s\n", p, leanName(lx.Name), tmps[i])
					}
				default:
					return p + t.fail(x, "tuple assignment target") + "\n"
				}
			}
			return out
		}
	}
	var names []string
	for _, l := range x.Lhs {
		id, ok := l.(*ast.Ident)
		if !ok || (x.Tok != token.DEFINE && x.Tok != token.ASSIGN) {
			return p + t.fail(x, "tuple assignment") + "\n"
		}
		if id.Name == "_" {
			names = append(names, "_")
		} else {
			names = append(names, leanName(id.Name))
		}
	}
	if len(x.Rhs) == 1 {
		return fmt.Sprintf("%slet (%s) := %s\n", p, strings.Join(names, ", "), t.expr(x.Rhs[0]))
	}
	var es []string
	for _, r := range x.Rhs {
		es = append(es, t.expr(r))
	}
	return fmt.Sprintf("%slet (%s) := (%s)\n", p, strings.Join(names, ", "), strings.Join(es, ", "))
}

func (t *tr) opAssign(x *ast.AssignStmt, cur, rhs string, y ty) string {
	shiftN := func() string { return t.natOf(x.Rhs[0]) }
	switch x.Tok {
	case token.ADD_ASSIGN:
		return cur + " + " + rhs
	case token.SUB_ASSIGN:
		return cur + " - " + rhs
	case token.MUL_ASSIGN:
		return cur + " * " + rhs
	case token.AND_ASSIGN:
		return cur + " &&& " + rhs
	case token.OR_ASSIGN:
		return cur + " ||| " + rhs
	case token.XOR_ASSIGN:
		return cur + " ^^^ " + rhs
	case token.AND_NOT_ASSIGN:
		return cur + " &&& ~~~" + rhs
	case token.SHL_ASSIGN:
		return cur + " <<< " + shiftN()
	case token.SHR_ASSIGN:
		if y.signed {
			return "BitVec.sshiftRight " + cur + " " + shiftN()
		}
		return cur + " >>> " + shiftN()
	}
	return t.fail(x, "op-assign %s", x.Tok)
}

// switch tag { case c: …; fallthrough … }  (expression switch over constants, optional fallthrough chains, optional default LAST)
func (t *tr) switchStmt(x *ast.SwitchStmt) string {
	p := t.pad()
	if x.Init != nil || x.Tag == nil {
		return p + t.fail(x, "switch form") + "\n"
	}
	var bodies []ast.Stmt
	for _, c := range x.Body.List {
		bodies = append(bodies, c.(*ast.CaseClause).Body...)
	}
	as := t.assigned(bodies)
	for _, b := range bodies {
		bad := false
		ast.Inspect(b, func(n ast.Node) bool {
			if _, ok := n.(*ast.ReturnStmt); ok {
				bad = true
			}
			return true
		})
		if bad {
			return p + t.fail(x, "return inside switch") + "\n"
		}
	}
	if t.hasOpt(bodies) {
		return p + t.fail(x, "panic (or a call that can panic) inside a switch") + "\n"
	}
	if len(as) == 0 {
		return ""
	}
	tp := tuple(as)
	// the switch becomes a helper definition `<fn>_sw<k> tag <variables read or assigned in the arms>`, so that
	// theorems about it can be stated per tag value
	type pv struct {
		name string
		pos  token.Pos
		y    ty
	}
	var pvs []pv
	seen := map[types.Object]bool{}
	for _, c := range x.Body.List {
		ast.Inspect(c, func(n ast.Node) bool {
			id, ok := n.(*ast.Ident)
			if !ok {
				return true
			}
			obj, ok := t.info.ObjectOf(id).(*types.Var)
			if !ok || obj.Parent() == t.pkg.Scope() || obj.IsField() || seen[obj] {
				return true
			}
			if obj.Pos() >= x.Pos() && obj.Pos() < x.End() {
				return true // declared inside the switch
			}
			seen[obj] = true
			y, ok := t.tyOf(obj.Type())
			if !ok {
				t.fail(id, "switch variable type %s", obj.Type())
			}
			pvs = append(pvs, pv{obj.Name(), obj.Pos(), y})
			return true
		})
	}
	sort.Slice(pvs, func(i, j int) bool { return pvs[i].pos < pvs[j].pos })
	tagTy, _ := t.typeOfExpr(x.Tag)
	t.cnt[t.curFn]++
	hname := leanName(strings.ReplaceAll(strings.ReplaceAll(t.curFn, "/", "_"), ".", "_")) + fmt.Sprintf("_sw%d", t.cnt[t.curFn])
	var decls, args, rtys []string
	for _, v := range pvs {
		decls = append(decls, fmt.Sprintf("(%s : %s)", leanName(v.name), v.y.lean()))
		args = append(args, leanName(v.name))
	}
	for _, a := range as {
		for _, v := range pvs {
			if v.name == a {
				rtys = append(rtys, v.y.lean())
			}
		}
	}
	pos := t.fset.Position(x.Pos())
	h := fmt.Sprintf("/-- %s: the `switch %s` of `%s` (arms in source order; `sw_run` carries `fallthrough`) -/\n", filepath.Base(pos.Filename), src(t.fset, x.Tag), t.curFn)
	h += fmt.Sprintf("def %s (sw_tag : %s) %s : %s :=\n", hname, tagTy.lean(), strings.Join(decls, " "), strings.Join(rtys, " × "))
	saved := t.indent
	t.indent = 1
	hp := t.pad()
	h += fmt.Sprintf("%slet sw_run := false\n%slet sw_done := false\n", hp, hp)
	for i, c := range x.Body.List {
		cc := c.(*ast.CaseClause)
		body := cc.Body
		ft := false
		if n := len(body); n > 0 {
			if b, ok := body[n-1].(*ast.BranchStmt); ok && b.Tok == token.FALLTHROUGH {
				ft = true
				body = body[:n-1]
			}
		}
		var conds []string
		if cc.List == nil {
			if i != len(x.Body.List)-1 {
				t.indent = saved
				return p + t.fail(x, "default clause not last") + "\n"
			}
			conds = append(conds, "true")
		}
		for _, e := range cc.List {
			conds = append(conds, "(sw_tag == "+t.expr(e)+")")
		}
		h += fmt.Sprintf("%slet sw_run := sw_run || (!sw_done && (%s))\n", hp, strings.Join(conds, " || "))
		h += hp + "let " + tp + " := if sw_run then\n"
		t.indent += 2
		h += t.stmts(body, func() string { return tp }, nil)
		t.indent -= 2
		h += hp + "  else " + tp + "\n"
		if !ft {
			h += hp + "let sw_done := sw_done || sw_run\n" + hp + "let sw_run := false\n"
		}
	}
	h += hp + tp + "\n"
	t.indent = saved
	t.helpers = append(t.helpers, h)
	return fmt.Sprintf("%slet %s := %s %s %s\n", p, tp, hname, t.expr(x.Tag), strings.Join(args, " "))
}

// counted loops (see the header comment for the accepted forms):
//
//	for i := a; i < b; i++ / i <= b; i++ / i > b; i-- / i >= b; i-- { body }      and      for i := range x / for i, v := range x (x a byte slice)
//
// A range statement is rewritten to the ForStmt it abbreviates before translation.
func (t *tr) rangeStmt(r *ast.RangeStmt) string {
	p := t.pad()
	y, ok := t.typeOfExpr(r.X)
	key, okk := r.Key.(*ast.Ident)
	if !ok || y.kind != "bytes" || r.Tok != token.DEFINE || !okk {
		return p + t.fail(r, "range statement form (only `for i := range bytes` / `for i, v := range bytes` / `for _, v := range bytes`)") + "\n"
	}
	if _, isId := r.X.(*ast.Ident); !isId {
		return p + t.fail(r, "range over a non-variable") + "\n"
	}
	if b, ok := t.info.Types[r.X].Type.Underlying().(*types.Basic); ok && b.Info()&types.IsString != 0 {
		return p + t.fail(r, "range over a string (iterates over runes, not bytes)") + "\n"
	}
	t.rngCount++
	iname := key.Name
	if iname == "_" {
		iname = fmt.Sprintf("rng_i%d", t.rngCount)
	}
	var pre []string
	if r.Value != nil {
		v, okv := r.Value.(*ast.Ident)
		if !okv {
			return p + t.fail(r, "range value") + "\n"
		}
		if v.Name != "_" {
			t.notes = append(t.notes, fmt.Sprintf("%s: range value %s := %s[%s] totalised (getD … 0)", t.curFn, v.Name, src(t.fset, r.X), iname))
			pre = append(pre, fmt.Sprintf("let %s := (%s.getD %s.toNat 0#8)", leanName(v.Name), t.expr(r.X), leanName(iname)))
		}
	}
	return t.loop(r, r.Body, leanName(iname), ty{"bv", 64, true, nil}, "0x0#64", "(BitVec.ofNat 64 "+t.expr(r.X)+".length)", token.LSS, true,
		[]ast.Node{r.X}, pre, "range "+src(t.fset, r.X), key.Name)
}

func (t *tr) forStmt(x *ast.ForStmt) string {
	p := t.pad()
	init, ok1 := x.Init.(*ast.AssignStmt)
	cond, ok2 := x.Cond.(*ast.BinaryExpr)
	post, ok3 := x.Post.(*ast.IncDecStmt)
	if !ok1 || !ok2 || !ok3 || init.Tok != token.DEFINE || len(init.Lhs) != 1 || len(init.Rhs) != 1 {
		return p + t.fail(x, "for statement form (only `for i := a; i <|<=|>|>= b; i++|i--`)") + "\n"
	}
	up := post.Tok == token.INC
	switch {
	case up && (cond.Op == token.LSS || cond.Op == token.LEQ):
	case !up && (cond.Op == token.GTR || cond.Op == token.GEQ):
	default:
		return p + t.fail(x, "for statement form (condition %s with %s)", cond.Op, post.Tok) + "\n"
	}
	iv, ok := init.Lhs[0].(*ast.Ident)
	ci, okc := cond.X.(*ast.Ident)
	pi, okp := post.X.(*ast.Ident)
	if !ok || !okc || !okp || ci.Name != iv.Name || pi.Name != iv.Name {
		return p + t.fail(x, "for statement form (loop variable)") + "\n"
	}
	iobj := t.info.Defs[iv]
	if iobj == nil || t.info.Uses[ci] != iobj || t.info.Uses[pi] != iobj {
		return p + t.fail(x, "for statement form (loop variable object)") + "\n"
	}
	iy, ok := t.tyOf(iobj.Type())
	if !ok || iy.kind != "bv" {
		return p + t.fail(x, "loop variable type") + "\n"
	}
	return t.loop(x, x.Body, leanName(iv.Name), iy, t.expr(init.Rhs[0]), t.expr(cond.Y), cond.Op, up, []ast.Node{cond.Y}, nil,
		src(t.fset, init)+"; "+src(t.fset, cond)+"; "+src(t.fset, post), iv.Name)
}

// loop emits the helper definition for a counted loop and returns the call. `a` and `b` are the translated start and
// bound, `op` the comparison `i op b`, `up` the direction of the step (±1); `boundNodes` are the Go expressions the bound
// is made of (none of their variables may be assigned in the body); `pre` are let-lines put in front of the body.
func (t *tr) loop(x ast.Node, body *ast.BlockStmt, i string, iy ty, a, b string, op token.Token, up bool, boundNodes []ast.Node, pre []string, what, goI string) string {
	p := t.pad()
	bad := ""
	ast.Inspect(body, func(n ast.Node) bool {
		switch n.(type) {
		case *ast.BranchStmt:
			bad = "break/continue/goto"
		case *ast.ReturnStmt:
			bad = "return"
		case *ast.FuncLit, *ast.DeferStmt, *ast.GoStmt:
			bad = "closure/defer/go"
		}
		return true
	})
	if bad == "" && t.hasOpt(body.List) {
		bad = "panic (or a call that can panic)"
	}
	if bad != "" {
		return p + t.fail(x, "%s inside a loop body", bad) + "\n"
	}
	carried := t.assigned(body.List)
	isCarried := map[string]bool{}
	for _, c := range carried {
		isCarried[c] = true
	}
	if isCarried[goI] {
		return p + t.fail(x, "loop variable assigned in the body") + "\n"
	}
	boundBad := false
	for _, bn := range boundNodes {
		ast.Inspect(bn, func(n ast.Node) bool {
			if id, ok := n.(*ast.Ident); ok && isCarried[id.Name] {
				boundBad = true
			}
			return true
		})
	}
	if boundBad {
		return p + t.fail(x, "loop bound assigned in the body") + "\n"
	}
	if len(carried) == 0 {
		return ""
	}
	// free variables of body and bound (declared outside the for statement), in order of declaration
	type pv struct {
		name string
		pos  token.Pos
		y    ty
	}
	var pvs []pv
	seen := map[types.Object]bool{}
	collect := func(root ast.Node) {
		ast.Inspect(root, func(n ast.Node) bool {
			id, ok := n.(*ast.Ident)
			if !ok {
				return true
			}
			obj, ok := t.info.ObjectOf(id).(*types.Var)
			if !ok || obj.Parent() == t.pkg.Scope() || obj.IsField() || seen[obj] {
				return true
			}
			if obj.Pos() >= x.Pos() && obj.Pos() < x.End() {
				return true // declared inside the loop (the loop variable, body locals)
			}
			seen[obj] = true
			y, ok := t.tyOf(obj.Type())
			if !ok {
				t.fail(id, "loop variable type %s", obj.Type())
			}
			pvs = append(pvs, pv{obj.Name(), obj.Pos(), y})
			return true
		})
	}
	for _, bn := range boundNodes {
		collect(bn)
	}
	collect(body)
	sort.Slice(pvs, func(i, j int) bool { return pvs[i].pos < pvs[j].pos })
	t.cnt[t.curFn]++
	hname := leanName(strings.ReplaceAll(strings.ReplaceAll(t.curFn, "/", "_"), ".", "_")) + fmt.Sprintf("_loop%d", t.cnt[t.curFn])
	var fdecls, fargs, cdecls, cargs, rtys []string
	for _, v := range pvs {
		if isCarried[v.name] {
			continue
		}
		fdecls = append(fdecls, fmt.Sprintf("(%s : %s)", leanName(v.name), v.y.lean()))
		fargs = append(fargs, leanName(v.name))
	}
	for _, c := range carried {
		found := false
		for _, v := range pvs {
			if v.name == c {
				cdecls = append(cdecls, fmt.Sprintf("(%s : %s)", leanName(c), v.y.lean()))
				cargs = append(cargs, leanName(c))
				rtys = append(rtys, v.y.lean())
				found = true
			}
		}
		if !found {
			return p + t.fail(x, "carried variable %s", c) + "\n"
		}
	}
	tp := tuple(carried)
	pos := t.fset.Position(x.Pos())
	h := fmt.Sprintf("/-- %s: the loop `for %s` of `%s`: at most `fuel` iterations; carried variables %s -/\n",
		filepath.Base(pos.Filename), what, t.curFn, strings.Join(carried, ", "))
	h += fmt.Sprintf("def %s %s (fuel : Nat) (%s : %s) %s : %s :=\n", hname, strings.Join(fdecls, " "), i, iy.lean(), strings.Join(cdecls, " "), strings.Join(rtys, " × "))
	saved := t.indent
	t.indent = 1
	hp := t.pad()
	h += hp + "match fuel with\n" + hp + "| 0 => " + tp + "\n" + hp + "| fuel + 1 =>\n"
	t.indent = 2
	hp = t.pad()
	cmp := map[token.Token][2]string{token.LSS: {"BitVec.slt", "BitVec.ult"}, token.LEQ: {"BitVec.sle", "BitVec.ule"}}
	var condS string
	sg := 1
	if iy.signed {
		sg = 0
	}
	switch op {
	case token.LSS, token.LEQ:
		condS = fmt.Sprintf("(%s %s %s)", cmp[op][sg], i, b)
	case token.GTR:
		condS = fmt.Sprintf("(%s %s %s)", cmp[token.LSS][sg], b, i)
	case token.GEQ:
		condS = fmt.Sprintf("(%s %s %s)", cmp[token.LEQ][sg], b, i)
	}
	h += hp + "if " + condS + " then\n"
	t.indent = 3
	step := "+"
	if !up {
		step = "-"
	}
	rec := fmt.Sprintf("%s %s fuel (%s %s 0x1#%d) %s", hname, strings.Join(fargs, " "), i, step, iy.w, strings.Join(cargs, " "))
	for _, l := range pre {
		h += t.pad() + l + "\n"
	}
	h += t.stmts(body.List, func() string { return rec }, nil)
	t.indent = 2
	h += hp + "else " + tp + "\n"
	t.indent = saved
	t.helpers = append(t.helpers, h)
	// the trip count (exact whenever the loop runs without wrapping; the condition is false at once otherwise)
	var fuel string
	switch op {
	case token.LSS:
		fuel = fmt.Sprintf("((%s - %s).toNat)", b, a)
	case token.LEQ:
		fuel = fmt.Sprintf("((%s - %s).toNat + 1)", b, a)
	case token.GTR:
		fuel = fmt.Sprintf("((%s - %s).toNat)", a, b)
	case token.GEQ:
		fuel = fmt.Sprintf("((%s - %s).toNat + 1)", a, b)
	}
	return fmt.Sprintf("%slet %s := %s %s %s %s %s\n", p, tp, hname, strings.Join(fargs, " "), fuel, a, strings.Join(cargs, " "))
}

// ---- functions, segments, constants

func (t *tr) params(fl *ast.FieldList, body ast.Node) ([]string, []string) {
	var names, decls []string
	if fl == nil {
		return nil, nil
	}
	for _, f := range fl.List {
		for _, id := range f.Names {
			obj := t.info.Defs[id]
			if st, _ := structOf(obj.Type()); st != nil && body != nil && !isBytesBuffer(obj.Type()) {
				// a struct parameter is passed as the fields the body uses (read-only; assigned fields of a pointer
				// RECEIVER are handled by fninfo)
				seenF := map[types.Object]bool{}
				ast.Inspect(body, func(n ast.Node) bool {
					se, ok := n.(*ast.SelectorExpr)
					if !ok {
						return true
					}
					x, ok := se.X.(*ast.Ident)
					fv, isField := t.info.Uses[se.Sel].(*types.Var)
					if !ok || t.info.Uses[x] != obj || !isField || !fv.IsField() || seenF[fv] {
						return true
					}
					seenF[fv] = true // (also a field promoted from an embedded struct)
					y, ok := t.tyOf(fv.Type())
					if !ok {
						t.fail(id, "type %s of the field %s.%s", fv.Type(), id.Name, fv.Name())
					}
					names = append(names, id.Name+"_"+fv.Name())
					decls = append(decls, fmt.Sprintf("(%s : %s)", leanName(id.Name+"_"+fv.Name()), y.lean()))
					return true
				})
				continue
			}
			y, ok := t.tyOf(obj.Type())
			if !ok {
				t.fail(id, "parameter type %s", obj.Type())
			}
			names = append(names, id.Name)
			decls = append(decls, fmt.Sprintf("(%s : %s)", leanName(id.Name), y.lean()))
		}
	}
	return names, decls
}

func (t *tr) function(fd *ast.FuncDecl) string {
	t.curFn = fd.Name.Name
	defName := fd.Name.Name
	var decls []string
	var fi *fnInfo
	if fd.Recv != nil && len(fd.Recv.List) == 1 {
		rt := fd.Recv.List[0].Type
		if st, ok := rt.(*ast.StarExpr); ok {
			rt = st.X
		}
		if id, ok := rt.(*ast.Ident); ok {
			defName = id.Name + "_" + fd.Name.Name
			t.curFn = id.Name + "." + fd.Name.Name
		}
		fi = t.fninfo(t.curFn)
		if fi.exploded {
			rn := fd.Recv.List[0].Names[0].Name
			for _, f := range fi.ins {
				if !f.ok {
					t.fail(fd.Recv, "type of the receiver field %s.%s", rn, f.name)
				}
				decls = append(decls, fmt.Sprintf("(%s : %s)", leanName(rn+"_"+f.name), f.y.lean()))
			}
		} else {
			_, rd := t.params(fd.Recv, nil)
			decls = append(decls, rd...)
		}
	} else {
		fi = t.fninfo(t.curFn)
	}
	_, pd := t.params(fd.Type.Params, fd.Body)
	decls = append(decls, pd...)
	var resNames []string
	var resTys []string
	t.outs, t.opt = nil, fi.opt
	if fi.exploded {
		rn := fd.Recv.List[0].Names[0].Name
		for _, f := range fi.outs {
			t.outs = append(t.outs, rn+"_"+f.name)
			resTys = append(resTys, f.y.lean())
		}
	}
	// a *bytes.Buffer parameter that is written to is returned (in front of the results, after the receiver fields)
	if fd.Type.Params != nil {
		for _, f := range fd.Type.Params.List {
			for _, id := range f.Names {
				obj := t.info.Defs[id]
				if obj == nil || !isBytesBuffer(obj.Type()) {
					continue
				}
				written := false
				ast.Inspect(fd.Body, func(n ast.Node) bool {
					if es, ok := n.(*ast.ExprStmt); ok {
						if w, _, ok := t.bufWrite(es.X); ok && t.info.Uses[w] == obj {
							written = true
						}
					}
					return !written
				})
				if written {
					t.outs = append(t.outs, id.Name)
					resTys = append(resTys, "List (BitVec 8)")
				}
			}
		}
	}
	pre := ""
	t.resTypes = nil
	if fd.Type.Results != nil {
		for _, f := range fd.Type.Results.List {
			T := t.info.Types[f.Type].Type
			y, ok := t.tyOf(T)
			if !ok {
				t.fail(f.Type, "result type %s", T)
			}
			for k := 0; k < len(f.Names) || k == 0; k++ {
				t.resTypes = append(t.resTypes, T)
			}
			if len(f.Names) == 0 {
				resTys = append(resTys, y.lean())
			}
			for _, id := range f.Names {
				resTys = append(resTys, y.lean())
				resNames = append(resNames, id.Name)
				pre += fmt.Sprintf("  let %s : %s := %s\n", leanName(id.Name), y.lean(), t.zero(T, id))
			}
		}
	}
	resTy := strings.Join(resTys, " × ")
	if len(resTys) == 0 {
		resTy = "Unit"
	}
	if t.opt {
		resTy = "Option (" + resTy + ")"
	}
	pos := t.fset.Position(fd.Pos())
	out := fmt.Sprintf("/-- %s `%s%s` -/\n", filepath.Base(pos.Filename), t.curFn, strings.TrimPrefix(src(t.fset, fd.Type), "func"))
	out += fmt.Sprintf("def %s %s : %s :=\n", leanName(defName), strings.Join(decls, " "), resTy)
	t.indent = 1
	var resLean []string
	for _, r := range resNames {
		resLean = append(resLean, leanName(r))
	}
	out += pre + t.stmts(fd.Body.List, func() string { return t.ret(resLean) }, resNames)
	t.outs, t.opt = nil, false
	return out
}

func findSegment(fset *token.FileSet, body *ast.BlockStmt, first, last string) []ast.Stmt {
	var found []ast.Stmt
	ast.Inspect(body, func(n ast.Node) bool {
		if found != nil {
			return false
		}
		var list []ast.Stmt
		switch b := n.(type) {
		case *ast.BlockStmt:
			list = b.List
		case *ast.CaseClause:
			list = b.Body
		default:
			return true
		}
		// a pattern ending in "{" names a compound statement (for / if / switch) by its header
		match := func(text, pat string) bool {
			return text == pat || (strings.HasSuffix(pat, "{") && strings.HasPrefix(text, pat))
		}
		for i, s := range list {
			if match(src(fset, s), first) {
				for j := i; j < len(list); j++ {
					if match(src(fset, list[j]), last) {
						found = list[i : j+1]
						return false
					}
				}
			}
		}
		return true
	})
	return found
}

func (t *tr) segment(fd *ast.FuncDecl, sg Segment) string {
	t.curFn = fd.Name.Name + "/" + sg.Name
	seg := findSegment(t.fset, fd.Body, sg.First, sg.Last)
	if seg == nil {
		t.errs = append(t.errs, fmt.Sprintf("%s: segment %q … %q not found", t.curFn, sg.First, sg.Last))
		return ""
	}
	lo, hi := seg[0].Pos(), seg[len(seg)-1].End()
	// inputs: local variables / parameters declared outside the segment and used inside it, in declaration order
	type inp struct {
		name string
		pos  token.Pos
		y    ty
	}
	var ins []inp
	seen := map[types.Object]bool{}
	for _, s := range seg {
		ast.Inspect(s, func(n ast.Node) bool {
			if es, ok := n.(*ast.ExprStmt); ok && isPanic(es) {
				return false // the argument of panic is not translated
			}
			if c, ok := n.(*ast.CallExpr); ok {
				if t.isNonNil(c) {
					return false
				}
				// a call of a method on a struct variable reads the receiver fields the method uses
				if cn, rx := t.callee(c); cn != "" {
					if id, ok := rx.(*ast.Ident); ok {
						if v, isVar := t.info.Uses[id].(*types.Var); isVar && !(v.Pos() >= lo && v.Pos() < hi) {
							if st, _ := structOf(v.Type()); st != nil {
								for _, f := range t.fninfo(cn).ins {
									if fo := st.Field(f.idx); !seen[fo] {
										seen[fo] = true
										ins = append(ins, inp{id.Name + "_" + f.name, v.Pos(), f.y})
									}
								}
							}
						}
					}
				}
			}
			if se, ok := n.(*ast.SelectorExpr); ok {
				if id, ok := se.X.(*ast.Ident); ok {
					if v, isVar := t.info.Uses[id].(*types.Var); isVar && !(v.Pos() >= lo && v.Pos() < hi) {
						if y, ok := t.typeOfExpr(se); ok {
							if fo := t.info.Uses[se.Sel]; fo != nil && !seen[fo] {
								seen[fo] = true
								ins = append(ins, inp{id.Name + "_" + se.Sel.Name, v.Pos(), y})
							}
							return false
						}
					}
				}
			}
			id, ok := n.(*ast.Ident)
			if !ok {
				return true
			}
			obj, ok := t.info.Uses[id].(*types.Var)
			if !ok || obj.Parent() == t.pkg.Scope() || obj.IsField() || seen[obj] {
				return true
			}
			if obj.Pos() >= lo && obj.Pos() < hi {
				return true
			}
			if st, _ := structOf(obj.Type()); st != nil {
				return true // a struct variable: only its fields are inputs
			}
			seen[obj] = true
			y, ok := t.tyOf(obj.Type())
			if !ok {
				t.fail(id, "segment input type %s", obj.Type())
			}
			ins = append(ins, inp{obj.Name(), obj.Pos(), y})
			return true
		})
	}
	sort.Slice(ins, func(i, j int) bool { return ins[i].pos < ins[j].pos })
	var decls []string
	for _, i := range ins {
		decls = append(decls, fmt.Sprintf("(%s : %s)", leanName(i.name), i.y.lean()))
	}
	outs := t.assigned(seg)
	// plus: variables DEFINED at the top level of the segment and used after it
	for _, s := range seg {
		var ids []*ast.Ident
		switch x := s.(type) {
		case *ast.AssignStmt:
			if x.Tok == token.DEFINE {
				for _, l := range x.Lhs {
					if id, ok := l.(*ast.Ident); ok {
						ids = append(ids, id)
					}
				}
			}
		case *ast.DeclStmt:
			if gd, ok := x.Decl.(*ast.GenDecl); ok {
				for _, sp := range gd.Specs {
					if vs, ok := sp.(*ast.ValueSpec); ok {
						ids = append(ids, vs.Names...)
					}
				}
			}
		}
		for _, id := range ids {
			obj := t.info.Defs[id]
			if obj == nil {
				continue
			}
			used := false
			ast.Inspect(fd.Body, func(n ast.Node) bool {
				if u, ok := n.(*ast.Ident); ok && u.Pos() >= hi && t.info.Uses[u] == obj {
					used = true
				}
				return !used
			})
			dup := false
			for _, o := range outs {
				dup = dup || o == id.Name
			}
			if used && !dup {
				outs = append(outs, id.Name)
			}
		}
	}
	resTy := ""
	var tail func() string
	if terminates(seg) {
		var rs []string
		if fd.Type.Results != nil {
			for _, f := range fd.Type.Results.List {
				y, _ := t.tyOf(t.info.Types[f.Type].Type)
				n := len(f.Names)
				if n == 0 {
					n = 1
				}
				for k := 0; k < n; k++ {
					rs = append(rs, y.lean())
				}
			}
		}
		resTy = strings.Join(rs, " × ")
		tail = func() string { return "()" }
	} else {
		var rs []string
		for _, o := range outs {
			// type of the output variable
			var y ty
			if sy, ok := t.selTy[o]; ok {
				rs = append(rs, sy.lean())
				continue
			}
			ast.Inspect(fd, func(n ast.Node) bool {
				if id, ok := n.(*ast.Ident); ok && id.Name == o {
					if obj := t.info.ObjectOf(id); obj != nil {
						if yy, ok := t.tyOf(obj.Type()); ok {
							y = yy
							return false
						}
					}
				}
				return true
			})
			rs = append(rs, y.lean())
		}
		resTy = strings.Join(rs, " × ")
		tail = func() string { return tuple(outs) }
	}
	t.resTypes = nil
	if fd.Type.Results != nil {
		for _, f := range fd.Type.Results.List {
			for k := 0; k < len(f.Names) || k == 0; k++ {
				t.resTypes = append(t.resTypes, t.info.Types[f.Type].Type)
			}
		}
	}
	t.outs, t.opt = nil, t.hasOpt(seg)
	if t.opt {
		resTy = "Option (" + resTy + ")"
		if !terminates(seg) {
			tail = func() string { return "(some " + tuple(outs) + ")" }
		}
	}
	pos := t.fset.Position(seg[0].Pos())
	out := fmt.Sprintf("/-- %s: segment of `%s`: `%s` … `%s` -/\n", filepath.Base(pos.Filename), fd.Name.Name, sg.First, sg.Last)
	out += fmt.Sprintf("def %s %s : %s :=\n", leanName(sg.Name), strings.Join(decls, " "), resTy)
	t.indent = 1
	out += t.stmts(seg, tail, nil)
	t.opt = false
	return out
}

func main() {
	if len(os.Args) != 4 {
		fmt.Fprintln(os.Stderr, "usage: go2lean <repo> <targets.json> <lean-dir>")
		os.Exit(2)
	}
	repo, tfile, outdir := os.Args[1], os.Args[2], os.Args[3]
	var tg Targets
	b, err := os.ReadFile(tfile)
	if err == nil {
		err = json.Unmarshal(b, &tg)
	}
	if err != nil {
		fmt.Fprintln(os.Stderr, "targets:", err)
		os.Exit(2)
	}
	allErrs := []string{}
	for _, m := range tg.Modules {
		dir := filepath.Join(repo, m.Dir)
		bp, err := build.Default.ImportDir(dir, 0)
		if err != nil {
			if _, ok := err.(*build.MultiplePackageError); !ok && bp == nil {
				allErrs = append(allErrs, fmt.Sprintf("%s: %v", m.Lean, err))
				continue
			}
		}
		fset := token.NewFileSet()
		var files []*ast.File
		for _, f := range bp.GoFiles {
			af, err := parser.ParseFile(fset, filepath.Join(dir, f), nil, parser.ParseComments)
			if err != nil {
				allErrs = append(allErrs, fmt.Sprintf("%s: %v", m.Lean, err))
				continue
			}
			files = append(files, af)
		}
		info := &types.Info{Types: map[ast.Expr]types.TypeAndValue{}, Defs: map[*ast.Ident]types.Object{}, Uses: map[*ast.Ident]types.Object{}}
		conf := types.Config{Importer: importer.ForCompiler(fset, "source", nil), Error: func(error) {}, FakeImportC: true}
		pkg, _ := conf.Check(bp.ImportPath, fset, files, info)
		t := &tr{fset: fset, info: info, pkg: pkg, known: map[string]bool{}, selTy: map[string]ty{}, cnt: map[string]int{},
			finfo: map[string]*fnInfo{}, hoisted: map[*ast.CallExpr]string{}, hoistDone: map[ast.Stmt]bool{}, nonnil: map[string]bool{"fmt.Errorf": true, "errors.New": true}}
		decls := map[string]*ast.FuncDecl{}
		t.decls = decls
		for _, f := range files {
			for _, d := range f.Decls {
				if fd, ok := d.(*ast.FuncDecl); ok && fd.Body != nil {
					name := fd.Name.Name
					if fd.Recv != nil && len(fd.Recv.List) == 1 {
						rt := fd.Recv.List[0].Type
						if st, ok := rt.(*ast.StarExpr); ok {
							rt = st.X
						}
						if id, ok := rt.(*ast.Ident); ok {
							name = id.Name + "." + name
						}
					}
					decls[name] = fd
				}
			}
		}
		for _, f := range m.Funcs {
			t.known[f] = true
		}
		var body strings.Builder
		for _, ex := range m.Externs {
			fd := decls[ex.Name]
			if fd == nil {
				allErrs = append(allErrs, fmt.Sprintf("%s: extern %s not found", m.Lean, ex.Name))
				continue
			}
			if got := src(fset, fd); got != ex.Src {
				allErrs = append(allErrs, fmt.Sprintf("%s: extern %s: the Go source changed since its trusted Lean definition was written (re-validate it): %s", m.Lean, ex.Name, got))
				continue
			}
			pos := fset.Position(fd.Pos())
			if ex.NonNilError {
				t.nonnil[ex.Name] = true
				fmt.Fprintf(&body, "/- EXTERN (TRUSTED, not translated) %s `%s`: always returns a non-nil error (a call is `true`): %s\n    written for the source text: %s -/\n\n", filepath.Base(pos.Filename), ex.Name, ex.Why, ex.Src)
				continue
			}
			t.known[ex.Name] = true
			fmt.Fprintf(&body, "/-- EXTERN (TRUSTED, not translated) %s `%s`: %s\n    written for the source text: %s -/\n%s\n\n", filepath.Base(pos.Filename), ex.Name, ex.Why, ex.Src, ex.Lean)
		}
		// constants
		names := append([]string{}, m.Consts...)
		if len(m.Prefixes) > 0 {
			sc := pkg.Scope()
			for _, n := range sc.Names() {
				if _, ok := sc.Lookup(n).(*types.Const); ok {
					for _, p := range m.Prefixes {
						if strings.HasPrefix(n, p) {
							names = append(names, n)
							break
						}
					}
				}
			}
		}
		var table []string
		doneC := map[string]bool{}
		for _, n := range names {
			if doneC[n] {
				continue
			}
			doneC[n] = true
			c, ok := pkg.Scope().Lookup(n).(*types.Const)
			if !ok {
				allErrs = append(allErrs, fmt.Sprintf("%s: constant %s not found", m.Lean, n))
				continue
			}
			pos := fset.Position(c.Pos())
			switch c.Val().Kind() {
			case constant.Int:
				y, ok := t.tyOf(c.Type())
				if ok && y.kind == "bv" {
					fmt.Fprintf(&body, "/-- %s `%s %s` -/\ndef %s : %s := %s\n", filepath.Base(pos.Filename), n, c.Type(), leanName(n), y.lean(), lit(c.Val(), y.w))
				}
				fmt.Fprintf(&body, "def %s_int : Int := %s\n\n", leanName(n), intLit(c.Val()))
				table = append(table, fmt.Sprintf("(%q, %s)", n, intLit(c.Val())))
			case constant.String:
				fmt.Fprintf(&body, "/-- %s -/\ndef %s_str : String := %s\n\n", filepath.Base(pos.Filename), leanName(n), leanStr(constant.StringVal(c.Val())))
			default:
				allErrs = append(allErrs, fmt.Sprintf("%s: constant %s of kind %v", m.Lean, n, c.Val().Kind()))
			}
		}
		if len(table) > 0 {
			fmt.Fprintf(&body, "/-- every integer constant above, by its Go name -/\ndef constTable : List (String × Int) := [\n  %s]\n\n", strings.Join(table, ",\n  "))
		}
		for _, f := range m.Funcs {
			fd := decls[f]
			if fd == nil {
				allErrs = append(allErrs, fmt.Sprintf("%s: function %s not found", m.Lean, f))
				continue
			}
			fs := t.function(fd)
			for _, h := range t.helpers {
				body.WriteString(h + "\n")
			}
			t.helpers = nil
			body.WriteString(fs + "\n")
		}
		for _, sg := range m.Segments {
			fd := decls[sg.Func]
			if fd == nil {
				allErrs = append(allErrs, fmt.Sprintf("%s: function %s not found", m.Lean, sg.Func))
				continue
			}
			ss := t.segment(fd, sg)
			for _, h := range t.helpers {
				body.WriteString(h + "\n")
			}
			t.helpers = nil
			body.WriteString(ss + "\n")
		}
		allErrs = append(allErrs, t.errs...)
		var hdr strings.Builder
		fmt.Fprintf(&hdr, "/-\n  GENERATED by /verif/tools/go2lean from %s — regenerated by every run of ./check; do not edit.\n  Totalised operations (the Go code panics there; the generated definition returns a default):\n", m.Dir)
		seenN := map[string]bool{}
		for _, n := range t.notes {
			if !seenN[n] {
				seenN[n] = true
				fmt.Fprintf(&hdr, "    %s\n", n)
			}
		}
		fmt.Fprintf(&hdr, "-/\nset_option linter.unusedVariables false\nnamespace %s\n\n", m.Lean)
		if t.useCopy {
			hdr.WriteString("/-- Go's `copy(dst[a:], src)` on byte slices: min(len(src), len(dst)-a) bytes are overwritten from offset a -/\ndef goCopyAt (dst : List (BitVec 8)) (a : Nat) (src : List (BitVec 8)) : List (BitVec 8) :=\n  let n := min src.length (dst.length - a)\n  dst.take a ++ src.take n ++ dst.drop (a + n)\n\n")
		}
		outp := filepath.Join(outdir, strings.ReplaceAll(m.Lean, ".", "/")+".lean")
		content := hdr.String() + body.String() + "end " + m.Lean + "\n"
		if len(t.errs) > 0 {
			content = "-- TRANSLATION FAILED\n" + content
		}
		old, _ := os.ReadFile(outp)
		if string(old) != content {
			os.MkdirAll(filepath.Dir(outp), 0o755)
			tmp := outp + ".tmp"
			if err := os.WriteFile(tmp, []byte(content), 0o644); err == nil {
				os.Rename(tmp, outp)
			}
		}
	}
	if len(allErrs) > 0 {
		for _, e := range allErrs {
			fmt.Println("go2lean: " + e)
		}
		os.Exit(1)
	}
}

func intLit(v constant.Value) string {
	s := v.ExactString()
	if strings.HasPrefix(s, "-") {
		return "(" + s + ")"
	}
	return s
}

func leanStr(s string) string {
	var b strings.Builder
	b.WriteByte('"')
	for _, r := range s {
		switch {
		case r == '"' || r == '\\':
			b.WriteByte('\\')
			b.WriteRune(r)
		case r == '\n':
			b.WriteString("\\n")
		case r == '\t':
			b.WriteString("\\t")
		case r < 0x20:
			fmt.Fprintf(&b, "\\x%02x", r)
		default:
			b.WriteRune(r)
		}
	}
	b.WriteByte('"')
	return b.String()
}
