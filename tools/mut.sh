#!/bin/bash
# usage: tools/mut.sh <patch-file | seeded dir name> [tier]   — run ./check C16 against a scratch copy of /repo with the patch applied
cd /work/ev16
export GOFLAGS=-mod=mod GOPROXY=off GOSUMDB=off GOTOOLCHAIN=local
P=$1; T=${2:-quick}
[ -d seeded/$P ] && P=seeded/$P/patch.diff; P=$(realpath $P)
SC=/work/ev16-repo
rsync -a --delete --exclude .git /repo/ $SC/ || exit 2
(cd $SC && patch -s -p1 < $P) || { echo "PATCH DOES NOT APPLY: $P"; exit 2; }
VERIF_REPO=$SC ./check C16 $T 2>&1 | grep -v '^KNOWN-FINDING' | tail -n 3 | cut -c1-400
