import sys,re
name=sys.argv[1]
R='/work/s16c-repo/'
def sub(path, old, new, count=1):
    s=open(R+path).read()
    assert old in s, (name, 'pattern not found', old[:60])
    s=s.replace(old,new,count)
    open(R+path,'w').write(s)
START='''		// make sure both request channels are cleared before we refresh
		select {
		case <-d.refreshNowCh:
		default:
		}

		d.timer.Stop()
		select {
		case <-d.timer.C:
		default:
		}

		curBroadcaster := d.broadcaster
		d.broadcaster = nil
		d.mu.Unlock()

		err := d.refreshFn()
		if curBroadcaster != nil {
			curBroadcaster.broadcast(err)
		}
'''
if name=='M1':   # timer cancelled after a SUCCESSFUL refresh
    sub('host_source.go', START, START+'''		if err == nil {
			d.mu.Lock()
			d.timer.Stop()
			select {
			case <-d.timer.C:
			default:
			}
			d.mu.Unlock()
		}
''')
elif name=='M2': # refreshNow token dropped after the refresh
    sub('host_source.go', START, START+'''		select {
		case <-d.refreshNowCh:
		default:
		}
''')
elif name=='M3': # debounce() ignored while a refresh is running
    sub('host_source.go','''	refreshFn    func() error
}''','''	refreshFn    func() error
	running      bool
}''')
    sub('host_source.go','''	if d.stopped {
		return
	}
	d.timer.Reset(d.interval)''','''	if d.stopped || d.running {
		return
	}
	d.timer.Reset(d.interval)''')
    sub('host_source.go','''		d.broadcaster = nil
		d.mu.Unlock()

		err := d.refreshFn()
''','''		d.broadcaster = nil
		d.running = true
		d.mu.Unlock()

		err := d.refreshFn()
		d.mu.Lock()
		d.running = false
		d.mu.Unlock()
''')
elif name=='M4': # the channels are cleared after the refresh instead of before it
    sub('host_source.go', START, '''		curBroadcaster := d.broadcaster
		d.broadcaster = nil
		d.mu.Unlock()

		err := d.refreshFn()
		if curBroadcaster != nil {
			curBroadcaster.broadcast(err)
		}

		// make sure both request channels are cleared
		d.mu.Lock()
		select {
		case <-d.refreshNowCh:
		default:
		}

		d.timer.Stop()
		select {
		case <-d.timer.C:
		default:
		}
		d.mu.Unlock()
''')
elif name=='M5': # the broadcaster is taken when the refresh has returned
    sub('host_source.go', '''		curBroadcaster := d.broadcaster
		d.broadcaster = nil
		d.mu.Unlock()

		err := d.refreshFn()
		if curBroadcaster != nil {''','''		d.mu.Unlock()

		err := d.refreshFn()
		d.mu.Lock()
		curBroadcaster := d.broadcaster
		d.broadcaster = nil
		d.mu.Unlock()
		if curBroadcaster != nil {''')
elif name=='M6': # refreshNow() always makes a new broadcaster
    sub('host_source.go','''	if d.broadcaster == nil {
		d.broadcaster = newErrorBroadcaster()
		select {
		case d.refreshNowCh <- struct{}{}:
		default:
			// already a refresh pending
		}
	}
	return d.broadcaster.newListener()''','''	d.broadcaster = newErrorBroadcaster()
	select {
	case d.refreshNowCh <- struct{}{}:
	default:
		// already a refresh pending
	}
	return d.broadcaster.newListener()''')
elif name=='M7': # Session.debounceRingRefresh ignored while refreshRing is running
    sub('session.go','''	ringRefresher       *refreshDebouncer
''','''	ringRefresher       *refreshDebouncer
	ringRefreshRunning  int32
''')
    sub('host_source.go','''func (s *Session) debounceRingRefresh() {
	s.ringRefresher.debounce()''','''func (s *Session) debounceRingRefresh() {
	if atomic.LoadInt32(&s.ringRefreshRunning) == 1 {
		return // a refresh is running already
	}
	s.ringRefresher.debounce()''')
    sub('host_source.go','''func refreshRing(r *ringDescriber) error {
''','''func refreshRing(r *ringDescriber) error {
	atomic.StoreInt32(&r.session.ringRefreshRunning, 1)
	defer atomic.StoreInt32(&r.session.ringRefreshRunning, 0)
''')
    sub('host_source.go','\t"sync"\n','\t"sync"\n\t"sync/atomic"\n')
elif name=='M8': # refreshRing cancels the pending debounced request when it is done
    sub('host_source.go','''	r.session.metadata.setPartitioner(partitioner)
	r.session.policy.SetPartitioner(partitioner)
	return nil
}''','''	r.session.metadata.setPartitioner(partitioner)
	r.session.policy.SetPartitioner(partitioner)
	// the ring is fresh: a debounced refresh that is still pending is not needed any more
	r.session.ringRefresher.timer.Stop()
	return nil
}''')
else:
    raise SystemExit('unknown '+name)
