#!/bin/bash
# usage: run.sh M1 M2 ...
export GOFLAGS=-mod=mod GOPROXY=off GOSUMDB=off GOTOOLCHAIN=local
for m in "$@"; do
  rsync -a --exclude .git /repo/ /work/s16c-repo/
  python3 /work/s16c-mut/apply.py $m || { echo "$m APPLY FAILED"; continue; }
  (cd /work/s16c-repo && go build ./... ) || { echo "$m DOES NOT COMPILE"; continue; }
  t0=$(date +%s)
  out=$(cd /work/s16c && VERIF_REPO=/work/s16c-repo ./check C16 quick 2>&1 | grep -v '^KNOWN-FINDING' | tail -n 1 | cut -c1-200)
  t1=$(date +%s)
  f=$(ls -t /work/s16c/replays/*.json | head -1)
  det=$(python3 -c "
import json,sys
d=json.load(open('$f'))
print(d.get('failing_op'),'|',str(d.get('impl'))[:90],'| others:',[o.split(' ')[0] for o in d.get('others',[])])")
  echo "$m $((t1-t0))s $out :: $det"
done
rsync -a --exclude .git /repo/ /work/s16c-repo/
