#!/bin/bash
# usage: s16c-seedrun.sh <patch-file> [tier]   runs /work/s16c/check C16 against a scratch worktree of /repo + patch (+ untracked hook files)
P=$1; TIER=${2:-quick}
WT=/work/s16c-repo-$$
git -C /repo worktree add -q --detach $WT HEAD || exit 2
trap 'git -C /repo worktree remove --force $WT >/dev/null 2>&1; rm -rf $WT' EXIT
cp /repo/verif_export_c16c.go $WT/
git -C $WT apply $P || { echo "PATCH DOES NOT APPLY: $P"; exit 2; }
cd /work/s16c
export GOFLAGS=-mod=mod GOPROXY=off GOSUMDB=off GOTOOLCHAIN=local
VERIF_REPO=$WT ./check C16 $TIER 2>&1 | grep -v '^KNOWN-FINDING' | tail -n 3 | cut -c1-300
ls -t /work/s16c/replays/*.json 2>/dev/null | head -1
