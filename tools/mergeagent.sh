#!/bin/bash
# usage: mergeagent.sh <branch-name> <Cxx> [more Cxx...]  — merges w-<name>, commits its new hook files in /repo, registers proposed findings,
# builds Lean, runs the quick check of the properties (seeds 1 and 5) and every seeded change of those properties.
set -u
cd /verif
N=$1; shift
git merge --no-edit w-$N >/tmp/merge_$N.log 2>&1 || true
if git status --short | grep -q '^UU\|^AA'; then
  for f in $(git status --short | grep '^UU\|^AA' | awk '{print $2}'); do
    case $f in evidence/*) git checkout --theirs $f; git add $f;; *) echo "CONFLICT needs hand: $f";; esac
  done
  git status --short | grep -q '^UU\|^AA' && { echo "unresolved conflicts"; exit 1; }
  git commit -qm "Merge branch 'w-$N'"
fi
# hook files
for h in $(cd /repo && git status --short | grep '^?? verif_export' | awk '{print $2}'); do
  if [ -f hooks/$h.txt ] && cmp -s hooks/$h.txt /repo/$h; then
    (cd /repo && git add $h && git commit -qm "verif hooks: $h (build tag verif)" && git rev-parse --short HEAD >> /verif/props/hook_commits.txt); echo "hook committed: $h"
  fi
done
python3 - "$@" <<'PY'
import json,sys,os
k=json.load(open('/verif/known_findings.json'))
idx={e['id']:i for i,e in enumerate(k['findings'])}
for pid in sys.argv[1:]:
    f=f'/verif/props/{pid}.findings.json'
    if not os.path.exists(f): continue
    for n in json.load(open(f))['findings']:
        if n['id'] in idx:
            old=k['findings'][idx[n['id']]]
            if old.get('status')=='fixed': continue
            if any(n.get(x)!=old.get(x) for x in n):
                n.setdefault('status',old.get('status','open')); k['findings'][idx[n['id']]]=n; print('finding updated',n['id'])
        else:
            n.setdefault('status','open'); k['findings'].append(n); print('finding added',n['id'], n.get('what','')[:160])
json.dump(k,open('/verif/known_findings.json','w'),indent=1)
PY
(cd lean && ../lt 1800 lake build 2>&1 | tail -1)
for P in "$@"; do
  for s in 1 5; do VERIF_SEED=$s ./check $P quick 2>&1 | grep -v '^KNOWN-FINDING' | tail -1; done
  ./check $P quick 2>&1 | grep '^KNOWN-FINDING' | grep -o 'KF-C[0-9]*-[0-9]*.\{0,40\}\|\[[^]]*\]$' | paste - - | cut -c1-150
  for d in seeded/$P-*; do ./seedrun.sh $(basename $d) 2>&1 | tail -1; done
done
