#!/bin/bash
# usage: tools/seedrun_wt.sh <seeded-dir-name|patch-file> [tier]  — like seedrun.sh, but runs THIS worktree's check and
# copies the untracked hook files of /repo (verif_export_*.go) into the scratch worktree.
set -u
HERE=$(cd "$(dirname "$0")/.." && pwd)
S=$1; TIER=${2:-quick}
if [ -d $HERE/seeded/$S ]; then P=$HERE/seeded/$S/patch.diff; else P=$S; fi
PROP=${3:-$(basename $S | cut -d- -f1)}
WT=/work/s10d-seed-$$
git -C /repo worktree add -q --detach $WT HEAD || exit 2
trap 'git -C /repo worktree remove --force $WT >/dev/null 2>&1; rm -rf $WT' EXIT
for f in $(git -C /repo ls-files --others --exclude-standard | grep '^verif_export_'); do cp /repo/$f $WT/; done
git -C $WT apply $P || { echo "PATCH DOES NOT APPLY: $P"; exit 2; }
cd $HERE
VERIF_REPO=$WT ./check $PROP $TIER 2>&1 | grep -v '^KNOWN-FINDING' | tail -n 3 | cut -c1-260 | sed "s|^|[$S/$PROP] |"
