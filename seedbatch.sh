#!/bin/bash
# usage: seedbatch.sh   — verifies every new seeded change under /tmp/seed/<id>/out/<n> (not yet in /verif/seeded), keeps it with an automatic result text
cd /verif
for d in /tmp/seed/C??/out/*/; do
  [ -n "${ONLY:-}" ] && ! echo " $ONLY " | grep -q " $(echo $d | cut -d/ -f4) " && continue   # ONLY="C08 C11": leave the others (seeders still at work) alone
  ID=$(echo $d | cut -d/ -f4); N=$(basename $d)
  [ -d /verif/seeded/$ID-$N ] && continue
  [ -f $d/meta.json ] && [ -f $d/patch.diff ] && [ -f $d/demo_test.go ] || continue
  out=$(./seedverify.sh $ID $N 2>&1)
  demo0=$(echo "$out" | sed -n '/demo WITHOUT/,/build/p' | grep -m1 '^rc=' )
  demo1=$(echo "$out" | sed -n '/demo WITH patch/,/verif checks/p' | grep -m1 '^rc=')
  base=$(echo "$out" | grep -m1 '^root rc=')
  last=$(echo "$out" | grep 'property=' | tail -n 1)
  if [ "$demo0" != "rc=0" ] || [ "$demo1" = "rc=0" ] || [ "$base" != "root rc=0" ]; then echo "$ID-$N NOT-CONFIRMED demo0=$demo0 demo1=$demo1 base=$base"; continue; fi
  case "$last" in
    *no-failing-input-found*) res="caught by ./check $ID quick as a broken correspondence / tie only — no-failing-input-found";;
    VIOLATION*) res="caught by ./check $ID quick with a concrete failing input";;
    OK*) res="MISSED by ./check $ID quick at the time of seeding";;
    *) res="UNKNOWN: $last";;
  esac
  ./seedkeep.sh $ID $N "$res" >/dev/null
  echo "$ID-$N | $res | $(python3 -c "import json;print(json.load(open('$d/meta.json'))['title'][:110])")"
done
# (scratch worktrees /tmp/seed/*/wt are removed by the integrator at the end of a seeding round, not here: seeders may still be using them)
