#!/usr/bin/env python3
"""Regenerates MANIFEST.json from props/*.json (one check per claimed property) + props/not_applicable.json."""
import glob, json, os
ROOT = os.path.dirname(os.path.abspath(__file__))
checks = []
claimed = set()
for p in sorted(glob.glob(os.path.join(ROOT, "props", "C??.json"))):
    c = json.load(open(p))
    pid = c["id"]
    claimed.add(pid)
    checks.append({
        "property_id": pid,
        "quick_cmd": f"./check {pid} quick",
        "thorough_cmd": f"./check {pid} thorough",
        "evidence_file": f"evidence/{pid}.json",
        "replay_cmd_template": "./check replay {path}",
        "engine": "lean4-proof+correspondence",
        "level_claimed": {"category": "proof", "text": c["level_text"], "design_ref": c.get("design_ref", f"DESIGN.md section 6, {pid}")},
        "level_note": "; ".join(c.get("assumptions", []) + ["Lean kernel + propext/Classical.choice/Quot.sound only; model tied to code by differential correspondence (sampled)"]),
        "technique": c.get("technique", "Lean 4 theorem about a model + differential correspondence"),
    })
na = json.load(open(os.path.join(ROOT, "props", "not_applicable.json")))
na = [e for e in na if e["property_id"] not in claimed]
m = {
    "version": 1,
    "setup_cmd": "./setup.sh",
    "hooks": {
        "guard": "verif",
        "enable": "go build -tags \"verif verif_<id>\" (per-property sub-tags verif_c01..verif_c20; verif_all enables every export file)",
        "baseline_off_cmd": "for m in . ./lz4; do (cd /repo/$m && go test -mod=mod -json -vet=off -count=1 -timeout 25m ./...); done",
        "source_commits": [l.strip() for l in open(os.path.join(ROOT, "props", "hook_commits.txt")) if l.strip()],
        "add_only": True,
    },
    "engines": [{"name": "lean4-proof+correspondence", "path": "lean/ + harness/ + check",
                 "serves_properties": sorted(claimed),
                 "kind_free_text": "Lean 4 theorems about hand-written executable models; native model driver vdrv; Go harness calling the real code in-process; line-protocol differential"}],
    "checks": checks,
    "not_applicable": na,
    "notes": "See DESIGN.md. Every check: rebuilds harness from /repo working tree, lake build of the property's theorems, axiom audit, differential correspondence, known-findings replay.",
}
json.dump(m, open(os.path.join(ROOT, "MANIFEST.json"), "w"), indent=1)
print("claimed:", sorted(claimed), "not claimed:", [e["property_id"] for e in na])
