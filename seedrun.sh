#!/bin/bash
# usage: seedrun.sh <seeded-dir-name|patch-file> [tier] [props...]   (default: the property the seed names, quick)
# (works from any worktree of /verif: paths are relative to this script)
# Runs the checks against a scratch worktree of /repo with the seeded change applied (VERIF_REPO), never touching /repo.
set -u
HERE=$(cd "$(dirname "$0")" && pwd)
S=$1; TIER=${2:-quick}; shift; shift 2>/dev/null
if [ -d $HERE/seeded/$S ]; then P=$HERE/seeded/$S/patch.diff; else P=$S; fi
PROPS=${@:-$(basename $S | cut -d- -f1)}
WT=/tmp/mrepo-$$
git -C /repo worktree add -q --detach $WT HEAD || exit 2
trap 'git -C /repo worktree remove --force $WT >/dev/null 2>&1; rm -rf $WT; $HERE/.build/go2lean /repo $HERE/tools/go2lean/targets.json $HERE/lean >/dev/null 2>&1' EXIT   # lean/Gen back to the translation of /repo
if ! git -C $WT apply $P 2>/dev/null; then
  # a later fix: commit changed the lines the seed touches: use the rebased copy (same semantic change on the repaired tree)
  RB=$HERE/props/$(basename $S | cut -d- -f1).seed-$(basename $S | cut -d- -f2)-rebased.diff
  if [ -f $RB ] && git -C $WT apply $RB; then echo "[$S] (rebased copy $RB)"; else echo "PATCH DOES NOT APPLY: $P"; exit 2; fi
fi
# hook files a builder has added in this worktree but the integrator has not yet committed to /repo
for f in $HERE/hooks/verif_export_*.go.txt; do b=$(basename $f .txt); [ -f $WT/$b ] || cp $f $WT/$b; done
cd $HERE
for p in $PROPS; do
  VERIF_REPO=$WT ./check $p $TIER 2>&1 | grep -v '^KNOWN-FINDING' | tail -n 3 | cut -c1-260 | sed "s|^|[$S/$p] |"
done
